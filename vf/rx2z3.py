"""rx2z3: sre parse tree of a live pattern object -> z3 regular expression (language level, no priorities).

Used for *unbounded-length* language questions (inclusion / equivalence with a reference grammar).  Character classes are
the same CPython-tabulated code-point sets the sre interpreter uses.  Look-arounds are not translated: callers pass the
sub-tree they want (e.g. the body group) and check the look-around structure separately.
"""
import re
import re._constants as K
import re._parser as P
import z3

from . import symre


def cls(chars):
    xs = sorted(set(chars))
    if not xs:
        return z3.Empty(z3.ReSort(z3.StringSort()))
    rs = []
    lo = prev = xs[0]
    for x in xs[1:]:
        if x != prev + 1:
            rs.append((lo, prev))
            lo = x
        prev = x
    rs.append((lo, prev))
    parts = [z3.Range(_ch(a), _ch(b)) for a, b in rs]
    return parts[0] if len(parts) == 1 else z3.Union(*parts)


def _ch(c):
    return z3.StringVal(chr(c)) if 32 <= c < 127 and chr(c) not in '\\"' else z3.Unit(z3.CharFromBv(z3.BitVecVal(c, 18))) if False else z3.StringVal("\\u{%x}" % c)


def tr(nodes, flags):
    out = []
    for op, av in nodes:
        if op in (K.LITERAL, K.NOT_LITERAL, K.IN, K.ANY):
            out.append(cls(symre.atom_set((op, av), flags)))
        elif op is K.SUBPATTERN:
            out.append(tr(list(av[3]), flags))
        elif op is K.BRANCH:
            alts = [tr(list(a), flags) for a in av[1]]
            out.append(z3.Union(*alts) if len(alts) > 1 else alts[0])
        elif op in (K.MAX_REPEAT, K.MIN_REPEAT):
            lo, hi, sub = av
            r = tr(list(sub), flags)
            if hi is K.MAXREPEAT:
                out.append(z3.Concat(z3.Loop(r, lo, lo), z3.Star(r)) if lo else z3.Star(r))
            else:
                out.append(z3.Loop(r, lo, hi))
        elif op is K.AT:
            continue
        else:
            raise ValueError("rx2z3: unsupported node %s" % op)
    if not out:
        return z3.Re("")
    return out[0] if len(out) == 1 else z3.Concat(*out)


def parse(pattern_obj):
    tree = P.parse(pattern_obj.pattern, pattern_obj.flags)
    return tree, tree.state.flags


def witness_not_included(a, b, timeout_ms=60000):
    """a string in L(a) \\ L(b), or None if L(a) is included in L(b); raises on unknown"""
    s = z3.String("w")
    sol = z3.Solver()
    sol.set("timeout", timeout_ms)
    sol.add(z3.InRe(s, a), z3.Not(z3.InRe(s, b)))
    r = sol.check()
    if r == z3.unsat:
        return None
    if r == z3.sat:
        return sol.model()[s].as_string()
    raise RuntimeError("z3 regex query unknown")
