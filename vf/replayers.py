"""Concrete replayers: run the *un-instrumented* netconan on concrete inputs and say whether the property's
observable is violated.  No z3, no import hook in here -- this file is what `./check <ID> --replay <file>` and the
fresh-process confirmation of every solver counterexample execute (with /venv/bin/python and /repo on sys.path),
and what the in-worker concolic cross-check of explored paths calls with the plain module family.

Each replayer: f(fam, args) -> dict(violated=bool, observed=..., detail=str)
`fam` offers .ip .sir .files .cli .jun .words (modules).
"""
import io
import hashlib


class PlainFamily:
    def __init__(self):
        import netconan.ip_anonymization as ip
        import netconan.sensitive_item_removal as sir
        import netconan.anonymize_files as files
        import netconan.netconan as cli
        import netconan.utils.juniper_secrets as jun
        import netconan.default_reserved_words as words
        import ipaddress
        self.ip, self.sir, self.files, self.cli, self.jun, self.words, self.ipaddress = ip, sir, files, cli, jun, words, ipaddress


class TableMd5:
    """md5 test double driven by a finite table {input text: hex digest}; a miss falls back to the real md5 and is
    counted (a replay with misses does not faithfully realise the solver's hash function)."""

    def __init__(self, table):
        self.table = table
        self.misses = []

    def __call__(self, data=b""):
        outer = self
        text = data.decode("utf-8")

        class _H:
            def hexdigest(self_):
                if text in outer.table:
                    return outer.table[text]
                outer.misses.append(text)
                return hashlib.md5(data).hexdigest()

            def digest(self_):
                return bytes.fromhex(self_.hexdigest())
        return _H()


class patched_md5:
    """context manager: install a md5 double in the netconan modules that import md5 by name"""

    def __init__(self, fam, double):
        self.fam, self.double = fam, double

    def __enter__(self):
        self.saved = []
        for m in (self.fam.ip, self.fam.sir):
            if hasattr(m, "md5"):
                self.saved.append((m, m.md5))
                m.md5 = self.double
        return self

    def __exit__(self, *a):
        for m, v in self.saved:
            m.md5 = v


def _mk_ip(fam, cfg, family=4):
    """cfg: dict(prefixes=None|list, networks=None|list, B=int)"""
    if family == 4:
        pf = cfg.get("prefixes")
        nets = cfg.get("networks")
        return fam.ip.IpAnonymizer(cfg.get("salt", "S"), None if pf is None else list(pf),
                                   None if nets is None else list(nets), preserve_suffix=cfg.get("B"))
    return fam.ip.IpV6Anonymizer(cfg.get("salt", "S"), preserve_suffix=cfg.get("B"))


def _cpl(x, y, w):
    """common prefix length of two w-bit ints"""
    d = x ^ y
    return w if d == 0 else w - d.bit_length()


def _with_md5(fam, args, fn):
    table = args.get("md5_table")
    if table is None:
        return fn(), []
    dbl = TableMd5(table)
    with patched_md5(fam, dbl):
        r = fn()
    return r, dbl.misses


def ip_requests(fam, args):
    """Run a sequence of requests on one anonymizer (and optionally fresh ones) and report all results.
    args: family, cfg, requests=[["a"|"d", int], ...], md5_table
    returns results list (ints or 'EXC:<type>')."""
    w = 32 if args["family"] == 4 else 128

    def serve(an):
        out = []
        for kind, x in args["requests"]:
            try:
                out.append(an.anonymize(x) if kind == "a" else an.deanonymize(x))
            except Exception as e:  # observation
                out.append("EXC:%s" % type(e).__name__)
        return out

    def run():
        fresh = []
        for kind, x in args["requests"]:
            f = _mk_ip(fam, args["cfg"], args["family"])
            try:
                fresh.append(f.anonymize(x) if kind == "a" else f.deanonymize(x))
            except Exception as e:
                fresh.append("EXC:%s" % type(e).__name__)
        an = _mk_ip(fam, args["cfg"], args["family"])
        pad_to = args.get("pad_to")
        if not (pad_to and hasattr(an, "cache")):
            return serve(an), fresh
        # Realise "the memo already holds pad_to further entries that are irrelevant to these requests": serve unrelated
        # pseudo-random requests first (in a part of the address space none of the requests is in), then try the exact
        # sizes around the target, because a few top-level nodes are shared with the requests after all.
        if pad_to > 3000000:
            raise RuntimeError("memo size %d too large to realise in a replay" % pad_to)
        import copy
        import random as _r
        rnd = _r.Random(1)
        B = getattr(an, "preserve_suffix", 0) or 0
        used = {x >> (w - 3) for _, x in args["requests"]}
        free3 = [t for t in range(8) if t not in used] or list(range(8))

        def pick():
            return (rnd.choice(free3) << (w - 3)) | rnd.getrandbits(w - 3)

        def adds(inst, x):
            bits = inst.fmt.format(x)
            n = sum(1 for k in range(1, w - B + 1) if bits[:k] not in inst.cache)
            return n + (1 if B and bits not in inst.cache else 0)

        def pad(inst, target, last):
            while len(inst.cache) < target:
                remaining = target - len(inst.cache)
                if remaining > 2 * w or last is None:
                    last = pick()
                    if adds(inst, last) <= remaining:
                        inst.anonymize(last)
                    continue
                best = None
                for k in range(B, w - 3):
                    cand = last ^ (1 << k)
                    a_ = adds(inst, cand)
                    if 0 < a_ <= remaining and (best is None or a_ > best[0]):
                        best = (a_, cand)
                if best is None:
                    break
                inst.anonymize(best[1])
                last = best[1]
            return last
        base_len = len(an.cache)
        last = pad(an, base_len + max(0, pad_to - 48), None)
        first = None
        for delta in range(0, 97):
            inst = copy.copy(an)
            inst.cache = an.cache.copy()
            pad(inst, base_len + max(0, pad_to - 48) + delta, last)
            out = serve(inst)
            if first is None:
                first = out
            if out != fresh:
                return out, fresh
        return first, fresh
    (out, fresh), misses = _with_md5(fam, args, run)
    return dict(results=out, fresh=fresh, misses=misses, width=w)


def ip_pair(fam, args):
    """C01: two addresses on one instance (or two fresh ones): common prefix length must be preserved."""
    a, b = args["a"], args["b"]
    req = dict(args)
    req["requests"] = [["a", a], ["a", b]]
    r = ip_requests(fam, req)
    w = r["width"]
    res = r["results"] if args.get("shared", True) else r["fresh"]
    if any(isinstance(x, str) for x in res):
        return dict(violated=True, observed=res, detail="anonymize raised", misses=r["misses"])
    if any(not (0 <= x < (1 << w)) for x in res):
        return dict(violated=True, observed=res, detail="image outside the %d-bit address space" % w, misses=r["misses"])
    bad = _cpl(a, b, w) != _cpl(res[0], res[1], w)
    return dict(violated=bad, observed=res, detail="cpl(in)=%d cpl(out)=%d" % (_cpl(a, b, w), _cpl(res[0], res[1], w)), misses=r["misses"])


REPLAYERS = {"ip_requests": ip_requests, "ip_pair": ip_pair}


def register(name):
    def deco(f):
        REPLAYERS[name] = f
        return f
    return deco


@register("ip_roundtrip")
def ip_roundtrip(fam, args):
    """C02: fresh X does first(x) -> y; fresh Y does the opposite(y); must return x and nothing may raise."""
    first = args["first"]
    other = "d" if first == "a" else "a"

    def run():
        X = _mk_ip(fam, args["cfg"], args["family"])
        Y = _mk_ip(fam, args["cfg"], args["family"])
        try:
            y = X.anonymize(args["x"]) if first == "a" else X.deanonymize(args["x"])
            z = Y.deanonymize(y) if first == "a" else Y.anonymize(y)
            return [y, z]
        except Exception as e:
            return ["EXC:%s" % type(e).__name__]
    r, misses = _with_md5(fam, args, run)
    bad = len(r) < 2 or r[1] != args["x"]
    return dict(violated=bad, observed=r, detail="x=%d -> %r" % (args["x"], r), misses=misses)


@register("ip_warm_inverse")
def ip_warm_inverse(fam, args):
    def run():
        X = _mk_ip(fam, args["cfg"], args["family"])
        Y = _mk_ip(fam, args["cfg"], args["family"])
        try:
            y = X.anonymize(args["a"])
            for kind, x in args["warmup"]:
                Y.anonymize(x) if kind == "a" else Y.deanonymize(x)
            return [y, Y.deanonymize(y)]
        except Exception as e:
            return ["EXC:%s" % type(e).__name__]
    r, misses = _with_md5(fam, args, run)
    bad = len(r) < 2 or r[1] != args["a"]
    return dict(violated=bad, observed=r, detail="a=%d -> %r" % (args["a"], r), misses=misses)


def _is_mask_spec(x):
    """independent spec: ones-then-zeros or zeros-then-ones (32 bit)"""
    for k in range(33):
        if x == (1 << k) - 1 or x == 0xFFFFFFFF ^ ((1 << k) - 1):
            return True
    return False


@register("ip_match_roundtrip")
def ip_match_roundtrip(fam, args):
    """C02-H3 / C05-H2: token through _anonymize_match forward (X) and undo (fresh Y)."""
    import ipaddress
    family, cfg, a = args["family"], args["cfg"], args["a"]
    mk = ipaddress.IPv4Address if family == 4 else ipaddress.IPv6Address

    def run():
        X = _mk_ip(fam, cfg, family)
        Y = _mk_ip(fam, cfg, family)
        t0 = str(mk(a))
        try:
            t1 = fam.ip._anonymize_match(X, t0, False)
            t2 = fam.ip._anonymize_match(Y, t1, True)
        except Exception as e:
            return dict(texts=[t0, "EXC:%s" % type(e).__name__, None], values=[None, None])
        return dict(texts=[t0, t1, t2], values=[int(mk(t1)), int(mk(t2))])
    r, misses = _with_md5(fam, args, run)
    v1, v2 = r["values"]
    if v1 is None:
        bad = True
    elif family == 4:
        nets = [ipaddress.ip_network(n) for n in (cfg.get("networks") or [])]
        keep = _is_mask_spec(a) or any(mk(a) in n for n in nets)
        if keep:
            bad = r["texts"][1] != r["texts"][0] or r["texts"][2] != r["texts"][0]
        elif _is_mask_spec(v1):
            bad = v2 != v1
        else:
            bad = v2 != a
    else:
        bad = v2 != a
    r.update(violated=bad, detail="texts=%r" % (r["texts"],), misses=misses)
    return r


@register("ip_file_roundtrip")
def ip_file_roundtrip(fam, args):
    """C02-H4: one line through FileAnonymizer(anon_ip).anonymize_io and then through a fresh FileAnonymizer(undo_ip_anon)"""
    import ipaddress
    family, a, kw, ctx = args["family"], args["a"], args["kw"], args["ctx"]
    mk = ipaddress.IPv4Address if family == 4 else ipaddress.IPv6Address
    line = ctx[0] + str(mk(a)) + ctx[1]

    def run():
        try:
            o1 = io.StringIO()
            fam.files.FileAnonymizer(anon_ip=True, **kw).anonymize_io(io.StringIO(line), o1)
            o2 = io.StringIO()
            fam.files.FileAnonymizer(anon_ip=False, undo_ip_anon=True, **kw).anonymize_io(io.StringIO(o1.getvalue()), o2)
        except Exception as e:
            return dict(texts=[line, "EXC:%s" % type(e).__name__, None])
        return dict(texts=[line, o1.getvalue(), o2.getvalue()])
    r, misses = _with_md5(fam, args, run)
    t0, t1, t2 = r["texts"]

    def tokval(t):
        """value of the address token of a line that keeps the context verbatim, else None"""
        if t is None or not (t.startswith(ctx[0]) and t.endswith(ctx[1])):
            return None
        try:
            ip = ipaddress.ip_address(t[len(ctx[0]):len(t) - len(ctx[1])])
        except ValueError:
            return None
        return int(ip) if ip.version == family else None
    v1, v2 = tokval(t1), tokval(t2)
    if v1 is None or v2 is None:
        bad = True          # raised, context changed, or the token is no longer one address of the family
    else:
        excused = family == 4 and (_is_mask_spec(a) or _is_mask_spec(v1))
        bad = (v2 != v1) if excused else (v2 != a)
    r.update(violated=bad, detail="%r -> %r -> %r" % (t0, t1, t2), misses=misses, spelling_only=(not bad and t2 != (t1 if (family == 4 and v1 is not None and (_is_mask_spec(a) or _is_mask_spec(v1))) else t0)))
    return r


@register("ip_preserve")
def ip_preserve(fam, args):
    """C04/C05: membership in every configured prefix/network and the host bits must be preserved."""
    import ipaddress
    family, cfg, a, b = args["family"], args["cfg"], args["a"], args.get("b")
    w = 32 if family == 4 else 128
    B = min(cfg.get("B") or 0, w)
    reqs = [["a", a]] + ([["a", b]] if b is not None else [])
    r = ip_requests(fam, dict(args, requests=reqs))
    out = r["fresh"]
    if any(isinstance(x, str) for x in out):
        return dict(violated=True, observed=out, detail="anonymize raised", misses=r["misses"])
    why = []
    if family == 4:
        pf = cfg.get("prefixes")
        pfs = (list(fam.ip.IpAnonymizer.IPV4_CLASSES) + list(fam.ip.IpAnonymizer.RFC_1918_NETWORKS)) if pf is None else list(pf)
        # the property's own default list (classes A-E + RFC 1918), independent of the implementation constant
        if pf is None:
            pfs = ["0.0.0.0/1", "128.0.0.0/2", "192.0.0.0/3", "224.0.0.0/4", "10.0.0.0/8", "172.16.0.0/12", "192.168.0.0/16"]
        pfs += list(cfg.get("networks") or [])
        for p in pfs:
            n = ipaddress.ip_network(p)
            if (ipaddress.IPv4Address(a) in n) != (ipaddress.IPv4Address(out[0]) in n):
                why.append("membership in %s changed" % p)
    if B and (a & ((1 << B) - 1)) != (out[0] & ((1 << B) - 1)):
        why.append("host bits changed")
    if b is not None and B < w and (a >> B) == (b >> B) and (out[0] >> B) != (out[1] >> B):
        why.append("leading image bits depend on host bits")
    return dict(violated=bool(why), observed=out, detail="; ".join(why), misses=r["misses"])


@register("is_mask")
def is_mask(fam, args):
    v = args["value"]
    an = fam.ip.IpAnonymizer("S")
    if v is None:
        vals = [(1 << k) - 1 for k in range(33)] + [0xFFFFFFFF ^ ((1 << k) - 1) for k in range(33)] + [5, 0x00FF00FF, 0x80000001]
        bad = [x for x in vals if bool(an._is_mask(x)) != _is_mask_spec(x)]
        return dict(violated=bool(bad), observed=bad[:5], detail="spot check of the 66 constants and 3 non-masks")
    got = bool(an._is_mask(v))
    return dict(violated=got != _is_mask_spec(v), observed=got, detail="_is_mask(%d)=%r spec=%r" % (v, got, _is_mask_spec(v)))


@register("ip_untouched")
def ip_untouched(fam, args):
    """C05-H2: one token through _anonymize_match: kept verbatim iff mask-shaped or preserved, else replaced by the image."""
    import ipaddress
    cfg, a = args["cfg"], args["a"]

    def run():
        X = _mk_ip(fam, cfg, 4)
        ref = _mk_ip(fam, cfg, 4)
        t0 = str(ipaddress.IPv4Address(a))
        try:
            t1 = fam.ip._anonymize_match(X, t0, False)
            return dict(texts=[t0, t1], value=int(ipaddress.IPv4Address(t1)), image=ref.anonymize(a))
        except Exception as e:
            return dict(texts=[t0, "EXC:%s" % type(e).__name__], value=None, image=None)
    r, misses = _with_md5(fam, args, run)
    nets = [ipaddress.ip_network(n) for n in (cfg.get("networks") or [])]
    keep = _is_mask_spec(a) or any(ipaddress.IPv4Address(a) in n for n in nets)
    if r["value"] is None:
        bad = True
    elif keep:
        bad = r["texts"][1] != r["texts"][0]
    else:
        bad = r["value"] != r["image"] or (r["texts"][1] == r["texts"][0] and r["image"] != a)
    r.update(violated=bad, detail="texts=%r keep=%r" % (r["texts"], keep), misses=misses)
    return r


@register("ip_dump")
def ip_dump(fam, args):
    """C17: two anonymize requests (optionally an undo), then dump_to_file: every request listed with its replacement,
    every listed pair agrees with a fresh anonymizer, no original / replacement listed twice."""
    import ipaddress
    family, cfg, a, b = args["family"], args["cfg"], args["a"], args["b"]

    def run():
        X = _mk_ip(fam, cfg, family)
        try:
            ra = X.anonymize(a)
            rb = X.anonymize(b)
            if args.get("undo"):
                X.deanonymize(ra)
            out = io.StringIO()
            X.dump_to_file(out)
        except Exception as e:
            return dict(lines=["EXC:%s" % type(e).__name__], pairs=[], detail="raised", violated=True)
        lines = out.getvalue().splitlines()
        pairs = []
        why = []
        for l in lines:
            x, y = l.split("\t")
            pairs.append([int(ipaddress.ip_address(x)), int(ipaddress.ip_address(y))])
            if ipaddress.ip_address(x).version != family or ipaddress.ip_address(y).version != family:
                why.append("line %r names an address of the other family" % l)
        for x, y in ((a, ra), (b, rb)):
            if [x, y] not in pairs:
                why.append("request %d -> %d not listed" % (x, y))
        xs = [p[0] for p in pairs]
        ys = [p[1] for p in pairs]
        if len(set(xs)) != len(xs) or len(set(ys)) != len(ys):
            why.append("an original or a replacement is listed twice")
        for x, y in pairs:
            if _mk_ip(fam, cfg, family).anonymize(x) != y:
                why.append("listed pair %d -> %d disagrees with the mapping function" % (x, y))
        return dict(lines=lines, pairs=pairs, detail="; ".join(why), violated=bool(why))
    r, misses = _with_md5(fam, args, run)
    r["misses"] = misses
    return r


@register("ip_history")
def ip_history(fam, args):
    """C03: every answer in a request history equals the answer of a fresh instance."""
    r = ip_requests(fam, args)
    bad = r["results"] != r["fresh"] or any(isinstance(x, str) for x in r["results"])
    return dict(violated=bad, observed=r["results"], fresh=r["fresh"], detail="history answers %r vs fresh %r" % (r["results"], r["fresh"]), misses=r["misses"])


_JUN_FAMILIES = ["QzF3n6/9CAtpu0O", "B1IREhcSyrleKvMW8LXx", "7N-dVbwsY2g4oaJZGUDj", "iHkq.mPf5T"]
_JUN_WEIGHTS = [[1, 4, 32], [1, 16, 32], [1, 8, 32], [1, 64], [1, 32], [1, 4, 16, 128], [1, 32, 64]]


def jun_reference_decrypt(crypt):
    """Independent $9$ decoder written from the Crypt::Juniper description (not from the repo)."""
    alpha = "".join(_JUN_FAMILIES)
    num = {c: i for i, c in enumerate(alpha)}
    extra = {c: 3 - f for f, fam_ in enumerate(_JUN_FAMILIES) for c in fam_}
    if not crypt.startswith("$9$"):
        raise ValueError("not $9$")
    body = crypt[3:]
    if len(body) < 4 or any(c not in num for c in body):
        raise ValueError("bad body")
    first = body[0]
    rest = body[1 + extra[first]:]
    prev = first
    out = []
    pos = 0
    while rest:
        w = _JUN_WEIGHTS[pos % 7]
        grp, rest = rest[:len(w)], rest[len(w):]
        if len(grp) != len(w):
            raise ValueError("truncated group")
        total = 0
        for ch, wt in zip(grp, w):
            gap = (num[ch] - num[prev]) % len(alpha) - 1
            total += gap * wt
            prev = ch
        out.append(chr(total % 256))
        pos += 1
    return "".join(out)


@register("jun_roundtrip")
def jun_roundtrip(fam, args):
    p = "".join(chr(c) for c in args["plaintext"])
    try:
        c = fam.jun.juniper_nonrandom_encrypt(p, args["salt"])
        b = fam.jun.juniper_decrypt(c)
        ref = jun_reference_decrypt(c)
    except Exception as e:
        return dict(violated=True, observed="EXC:%s" % type(e).__name__, detail=repr(e))
    return dict(violated=(b != p or ref != p), observed=c, detail="crypt=%r back=%r reference=%r" % (c, b, ref))


@register("jun_step")
def jun_step(fam, args):
    J = fam.jun
    enc = J.ENCODING[args["pos"]]
    try:
        out = J._gap_encode(chr(args["char"]), chr(args["prev"]), enc)
        gaps, pr = [], chr(args["prev"])
        for ch in out:
            gaps.append(J._gap(pr, ch))
            pr = ch
        dec = J._gap_decode(gaps, enc)
    except Exception as e:
        return dict(violated=True, observed="EXC:%s" % type(e).__name__, detail=repr(e))
    return dict(violated=(dec != chr(args["char"]) or len(out) != len(enc)), observed=out, detail="decoded %r" % dec)


@register("jun_malformed")
def jun_malformed(fam, args):
    text = "".join(chr(c) for c in args["input"])
    try:
        r = fam.jun.juniper_decrypt(text)
    except ValueError:
        return dict(violated=False, observed="ValueError", detail="refused")
    except Exception as e:
        return dict(violated=True, observed="EXC:%s" % type(e).__name__, detail=repr(e))
    try:
        ref = jun_reference_decrypt(text)
    except ValueError:
        return dict(violated=True, observed=r, detail="returned %r for a string the reference decoder refuses" % r)
    return dict(violated=(ref != r), observed=r, detail="reference %r" % ref)


_AS_BLOCKS = [(0, 64511), (64512, 65535), (65536, 4199999999), (4200000000, 4294967295)]


@register("as_replacement")
def as_replacement(fam, args):
    num = args["number"]

    def run():
        an = fam.sir.AsNumberAnonymizer([], "S")
        try:
            return [an._generate_as_number_replacement(num), an._generate_as_number_replacement(num)]
        except Exception as e:
            return ["EXC:%s" % type(e).__name__]
    r, misses = _with_md5(fam, args, run)
    v = int(num)
    if v > 4294967295:
        bad = r != ["EXC:ValueError"]
    elif len(r) != 2 or r[0] != r[1] or not (r[0].isdigit() and r[0].isascii()):
        bad = True
    else:
        lo, hi = [b for b in _AS_BLOCKS if b[0] <= v <= b[1]][0]
        bad = not (lo <= int(r[0]) <= hi)
    return dict(violated=bad, observed=r, detail="number %s -> %r" % (num, r), misses=misses)


@register("as_line")
def as_line(fam, args):
    """C11-H2: output must equal the independent scanner's: maximal ASCII digit runs equal to a listed number are replaced."""
    nums, line = args["numbers"], args["line"]

    def run():
        an = fam.sir.AsNumberAnonymizer(list(nums), "S")
        try:
            out = fam.sir.anonymize_as_numbers(an, line)
        except Exception as e:
            return dict(out="EXC:%s" % type(e).__name__, expected=None)
        exp, i = [], 0
        while i < len(line):
            if line[i] in "0123456789":
                j = i
                while j < len(line) and line[j] in "0123456789":
                    j += 1
                run_ = line[i:j]
                exp.append(an.anonymize(run_) if run_ in nums else run_)
                i = j
            else:
                exp.append(line[i])
                i += 1
        return dict(out=out, expected="".join(exp))
    r, misses = _with_md5(fam, args, run)
    r.update(violated=(r["out"] != r["expected"]), detail="line %r -> %r, expected %r" % (line, r["out"], r["expected"]), misses=misses)
    return r


def _reseed_passlib():
    """passlib draws the sha512-crypt salt from its own RNG: re-seed it so that two runs differ only through their inputs"""
    try:
        import passlib.utils
        passlib.utils.rng.seed(12345)
    except Exception:
        pass


def secret_run(fam, args):
    """one secret-bearing input through the real code: mode 'value' (_anonymize_value) or 'line' (replace_matching_item)"""
    _reseed_passlib()
    a = args["a"]
    salt = args.get("salt", "S")
    try:
        if args.get("mode") == "value":
            lookup = {}
            for prior in args.get("prior", []):
                fam.sir._anonymize_value(prior, lookup, fam.words.default_reserved_words, salt)
            return fam.sir._anonymize_value(a, lookup, fam.words.default_reserved_words, salt)
        rx = fam.sir.generate_default_sensitive_item_regexes()
        return fam.sir.replace_matching_item(rx, a, {}, salt, fam.words.default_reserved_words)
    except Exception as e:
        return "EXC:%s" % type(e).__name__


@register("secret_pair")
def secret_pair(fam, args):
    """C07: two inputs that differ only in the content of a secret of the same format class must give identical output"""
    ra = secret_run(fam, args)
    if args.get("b") is None:
        return dict(violated=isinstance(ra, str) and ra.startswith("EXC:"), observed=ra, detail="single run: %r -> %r" % (args["a"], ra))
    rb = secret_run(fam, dict(args, a=args["b"]))
    return dict(violated=(ra != rb), observed=[ra, rb], detail="%r -> %r ; %r -> %r" % (args["a"], ra, args["b"], rb))


@register("secret_log")
def secret_log(fam, args):
    """C07-H5: nothing logged at INFO or above may contain the secret-bearing token"""
    import logging
    recs = []

    class H(logging.Handler):
        def emit(self, r):
            recs.append((r.levelno, r.getMessage()))
    root = logging.getLogger()
    h = H()
    old = root.manager.disable
    logging.disable(logging.NOTSET)
    root.addHandler(h)
    oldlvl = root.level
    root.setLevel(logging.DEBUG)
    try:
        secret_run(fam, args)
    finally:
        root.removeHandler(h)
        root.setLevel(oldlvl)
        logging.disable(old)
    toks = [t for t in args["a"].split() if len(t) >= 3]
    leaks = [m for lvl, m in recs if lvl >= logging.INFO and any(t in m for t in toks[-1:])]
    return dict(violated=bool(leaks), observed=leaks[:2], detail="records >= INFO mentioning the last token: %d" % len(leaks))


@register("secret_format")
def secret_format(fam, args):
    """C09: replacement keeps enclosing text and has (one of) the input's format(s), judged by independent decoders"""
    import re
    import importlib
    a, head, tail = args["a"], args["head"], args["tail"]
    prior = [a[len(head):len(a) - len(tail)]] if args.get("repeat") else []
    r = secret_run(fam, dict(mode="value", a=a, prior=prior))
    if r.startswith("EXC:"):
        return dict(violated=True, observed=r, detail="raised")
    if not (r.startswith(head) and r.endswith(tail)):
        return dict(violated=True, observed=r, detail="enclosing text lost")
    core_in = a[len(head):len(a) - len(tail)]
    core_out = r[len(head):len(r) - len(tail)]
    T7 = "dsfd;kfoA,.iyewrkldJKDHSUBsgvca69834ncxv9873254k;fg87"
    H64 = re.escape("./0123456789ABCDEFGHIJKLMNOPQRSTUVWXYZabcdefghijklmnopqrstuvwxyz")

    def t7ok(s):
        if not re.fullmatch(r"[0-9]{2}([0-9A-Fa-f]{2})+", s) or int(s[:2]) > 15:
            return False
        seed = int(s[:2])
        dec = "".join(chr(int(s[i:i + 2], 16) ^ ord(T7[(seed + (i - 2) // 2) % len(T7)])) for i in range(2, len(s), 2))
        return dec.startswith("netconanRemoved")
    fm_in = set()
    if re.fullmatch(r"[0-9]+", core_in):
        fm_in.add("numeric")
    if re.fullmatch(r"[0-9a-fA-F]+", core_in):
        fm_in.add("hex")
    if re.fullmatch(r"[01][0-9]([0-9a-fA-F]{2})+", core_in):
        fm_in.add("type7")
    m = re.fullmatch(r"\$1\$([^$]+)\$.+", core_in)
    if m:
        fm_in.add("md5_%d" % len(m.group(1)))
    if re.fullmatch(r"\$6\$.+", core_in):
        fm_in.add("sha512")
    if re.fullmatch(r"\$9\$.+", core_in):
        fm_in.add("j9")
    fm_out = set()
    if re.fullmatch(r"[0-9]+", core_out):
        fm_out.add("numeric")
    if re.fullmatch(r"[0-9a-fA-F]+", core_out):
        fm_out.add("hex")
    if t7ok(core_out):
        fm_out.add("type7")
    m = re.fullmatch(r"\$1\$([^$]*)\$[%s]{22}" % H64, core_out)
    if m:
        fm_out.add("md5_%d" % len(m.group(1)))
    if re.fullmatch(r"\$6\$[%s]{1,16}\$[%s]{86}" % (H64, H64), core_out):
        fm_out.add("sha512")
    try:
        if jun_reference_decrypt(core_out).startswith("netconanRemoved"):
            fm_out.add("j9")
    except (ValueError, KeyError):
        pass
    bad = bool(fm_in) and not (fm_in & fm_out)
    return dict(violated=bad, observed=r, detail="input formats %s, output formats %s" % (sorted(fm_in), sorted(fm_out)))


@register("secret_context")
def secret_context(fam, args):
    """C09-H2: the line keeps its text before and after the secret; exactly one whitespace-free replacement in between"""
    r = secret_run(fam, dict(mode="line", a=args["a"]))
    pre, suf = args["pre"], args["suf"]
    ok = r.startswith(pre) and r.endswith(suf) and len(r) > len(pre) + len(suf) and not any(c.isspace() for c in r[len(pre):len(r) - len(suf)])
    return dict(violated=not ok, observed=r, detail="%r -> %r" % (args["a"], r))


@register("secret_history")
def secret_history(fam, args):
    """C08: several secret-bearing inputs sharing one lookup; equal secrets <=> equal replacements (per the given equality pattern)"""
    _reseed_passlib()
    mode, inputs, part, extract = args["mode"], args["inputs"], args["part"], args.get("extract")
    lookup = {}
    for k in range(args.get("prior") or 0):
        fam.sir._anonymize_value("earlierSecret%d" % k, lookup, fam.words.default_reserved_words, "S")
    rx = fam.sir.generate_default_sensitive_item_regexes()
    outs = []
    try:
        for x in inputs:
            if mode == "value":
                outs.append(fam.sir._anonymize_value(x, lookup, fam.words.default_reserved_words, "S"))
            else:
                outs.append(fam.sir.replace_matching_item(rx, x, lookup, "S", fam.words.default_reserved_words))
    except Exception as e:
        return dict(violated=True, observed=outs + ["EXC:%s" % type(e).__name__], detail="raised")
    if mode == "value":
        h, t, _ = zip(*[fam.sir._extract_enclosing_text(x) for x in inputs]) if False else (None, None, None)
        cores = []
        for x, o in zip(inputs, outs):
            # strip the enclosing characters the harness added (longest common prefix/suffix of input and output made of non-alphanumerics)
            i = 0
            while i < min(len(x), len(o)) and x[i] == o[i] and not x[i].isalnum() and x[i] not in "$./":
                i += 1
            j = 0
            while j < min(len(x), len(o)) - i and x[-1 - j] == o[-1 - j] and not x[-1 - j].isalnum() and x[-1 - j] not in "$./":
                j += 1
            cores.append(o[i:len(o) - j])
    elif mode == "line":
        cores = []
        for o, (pre, suf) in zip(outs, extract):
            if not (o.startswith(pre) and o.endswith(suf)):
                return dict(violated=False, observed=outs, detail="context differs (not this property's subject)")
            cores.append(o[len(pre):len(o) - len(suf)])
    else:  # twice
        toks = outs[0].split()
        if max(extract) >= len(toks):
            return dict(violated=False, observed=outs, detail="token structure differs")
        cores = [toks[extract[0]], toks[extract[1]]]
    why = []
    for i in range(len(cores)):
        for j in range(i + 1, len(cores)):
            if (part[i] == part[j]) != (cores[i] == cores[j]):
                why.append("inputs %d,%d: secrets %s but replacements %r / %r" % (i, j, "equal" if part[i] == part[j] else "different", cores[i], cores[j]))
    return dict(violated=bool(why), observed=outs, detail="; ".join(why))


@register("secret_juniper")
def secret_juniper(fam, args):
    J = fam.jun
    vals = {"X": J.juniper_nonrandom_encrypt(args["p1"], args["s1"]), "Y": J.juniper_nonrandom_encrypt(args["p2"], args["s2"]), "P": args["p1"]}
    lookup = {}
    outs = {}
    try:
        for k in args["order"]:
            outs[k] = fam.sir._anonymize_value(vals[k], lookup, fam.words.default_reserved_words, "S")
        dx, dy = jun_reference_decrypt(outs["X"]), jun_reference_decrypt(outs["Y"])
    except Exception as e:
        return dict(violated=True, observed="EXC:%s" % type(e).__name__, detail=repr(e))
    if args["same"]:
        bad = not (dx == dy == outs["P"] and outs["X"] == outs["Y"])
    else:
        bad = dx == dy or dx != outs["P"]
    return dict(violated=bad, observed=[vals, outs, dx, dy], detail="decrypt(X')=%r decrypt(Y')=%r P'=%r" % (dx, dy, outs["P"]))


@register("total_line")
def total_line(fam, args):
    """C14: one line through one stage of the real pipeline (through FileAnonymizer.anonymize_io); any exception is a violation"""
    _reseed_passlib()
    stage, salt, a = args["stage"], args.get("salt", "S"), args["a"]
    kw = dict(anon_pwd=False, anon_ip=False, salt=salt)
    if stage == "pwd":
        kw["anon_pwd"] = True
    elif stage.startswith("ip"):
        kw["anon_ip"] = True
        kw["preserve_suffix_v4"] = 8
        kw["preserve_suffix_v6"] = 8
    elif stage == "words_as":
        r1 = total_line(fam, dict(args, stage="words"))
        r2 = total_line(fam, dict(args, stage="as"))
        return dict(violated=r1["violated"] or r2["violated"], observed=[r1["observed"], r2["observed"]], detail="%s / %s" % (r1["detail"], r2["detail"]))
    elif stage == "words":
        kw["sensitive_words"] = ["se", "x"]
    else:
        kw["as_numbers"] = ["1", "12"]

    class In:
        def readlines(self):
            return [a]
    out = io.StringIO()
    try:
        fa = fam.files.FileAnonymizer(**kw)
        fa.anonymize_io(In(), out)
    except Exception as e:
        return dict(violated=True, observed="EXC:%s: %s" % (type(e).__name__, e), detail="%r raised %s (written so far: %r)" % (a, type(e).__name__, out.getvalue()))
    return dict(violated=False, observed=out.getvalue(), detail="ok")


_SUBPROC = r'''
import io, sys, json, logging
sys.path.insert(0, %(repo)r)
logging.disable(logging.CRITICAL)
from netconan.anonymize_files import FileAnonymizer
args = json.loads(%(args)r)
for pre in args.get("pre", []):
    FileAnonymizer(**pre)
fa = FileAnonymizer(**args["kw"])
o = io.StringIO()
fa.anonymize_io(io.StringIO("".join(args["lines"])), o)
sys.stdout.write(json.dumps(o.getvalue()))
'''


def _in_subprocess(lines, kw, hashseed, pre=()):
    import json
    import os
    import subprocess
    import sys
    code = _SUBPROC % dict(repo=os.environ.get("VF_REPO", "/repo"), args=json.dumps(dict(lines=lines, kw=kw, pre=list(pre))))
    env = dict(os.environ, PYTHONHASHSEED=str(hashseed))
    r = subprocess.run([sys.executable, "-c", code], capture_output=True, text=True, env=env, timeout=120)
    if r.returncode != 0:
        return "EXC:" + r.stderr[-300:]
    return json.loads(r.stdout)


@register("determinism")
def determinism(fam, args):
    """C13: the same input, salt and options in separate interpreter processes with different hash seeds -> identical bytes"""
    outs = [_in_subprocess(args["lines"], args["kw"], seed) for seed in (1, 2, 3, 4, 5, 6)]
    return dict(violated=len(set(outs)) > 1, observed=sorted(set(outs))[:3], detail="%d distinct outputs over 6 processes" % len(set(outs)))


@register("earlier_anonymizer")
def earlier_anonymizer(fam, args):
    what, word = args["what"], args.get("word")
    pre = [dict(anon_pwd=True, anon_ip=False, salt="other", reserved_words=[word])] if what == "reserved" else \
        [dict(anon_pwd=True, anon_ip=False, salt="other", sensitive_words=["sea"], reserved_words=[word + "sea"])] if what == "reserved-words" else \
        [dict(anon_pwd=True, anon_ip=True, salt="other", sensitive_words=["lax", "attle"])]
    a = _in_subprocess(args["lines"], args["kw"], 1)
    b = _in_subprocess(args["lines"], args["kw"], 1, pre=pre)
    return dict(violated=(a != b), observed=[a, b], detail="clean process %r vs process that constructed another anonymizer first %r" % (a, b))


@register("nosalt")
def nosalt(fam, args):
    import logging
    recs = []

    class H(logging.Handler):
        def emit(self, r):
            recs.append(r)
    root = logging.getLogger()
    h = H()
    old = root.manager.disable
    logging.disable(logging.NOTSET)
    root.addHandler(h)
    try:
        _reseed_passlib()
        fa = fam.files.FileAnonymizer(salt=None, **args["kw"])
        o1 = io.StringIO()
        fa.anonymize_io(io.StringIO("".join(args["lines"])), o1)
    finally:
        root.removeHandler(h)
        logging.disable(old)
    salts = [r.args[0] for r in recs if r.levelno >= logging.WARNING and r.args and "salt" in str(r.msg)]
    if not salts:
        return dict(violated=True, observed=None, detail="generated salt not reported")
    _reseed_passlib()
    fb = fam.files.FileAnonymizer(salt=salts[0], **args["kw"])
    o2 = io.StringIO()
    fb.anonymize_io(io.StringIO("".join(args["lines"])), o2)
    return dict(violated=(o1.getvalue() != o2.getvalue()), observed=[o1.getvalue(), o2.getvalue()], detail="reported salt %r" % salts[0])


@register("words_line")
def words_line(fam, args):
    """C10: no listed word may occur (any letter case) in the output, except inside a whitespace token that is a reserved word"""
    words, line = args["words"], args["line"]

    def run():
        an = fam.sir.SensitiveWordAnonymizer(list(words), "S")
        return an.anonymize(line)
    try:
        out, misses = _with_md5(fam, args, run)
    except Exception as e:
        return dict(violated=True, observed="EXC:%s" % type(e).__name__, detail=repr(e))
    reserved = {w.lower() for w in fam.words.default_reserved_words}
    low = out.lower()
    bad = []
    for w in words:
        wl = w.lower()
        i = low.find(wl)
        while i >= 0:
            # enclosing whitespace token
            a = i
            while a > 0 and not out[a - 1].isspace():
                a -= 1
            b = i + len(wl)
            while b < len(out) and not out[b].isspace():
                b += 1
            if low[a:b] not in reserved:
                bad.append((w, i))
            i = low.find(wl, i + 1)
    return dict(violated=bool(bad), observed=out, detail="surviving occurrences %r in %r" % (bad, out), misses=misses)


@register("words_reserved")
def words_reserved(fam, args):
    tok = args["token"]
    fa = fam.files.FileAnonymizer(anon_pwd=False, anon_ip=False, salt="S", sensitive_words=list(args["words"]), reserved_words=list(args.get("user_reserved") or []) or None)
    out = fa.anonymizer_sensitive_word.anonymize("x %s y\n" % tok)
    return dict(violated=tok not in out.split(), observed=out, detail="token %r in %r" % (tok, out))


@register("words_reserved_secret")
def words_reserved_secret(fam, args):
    fa = fam.files.FileAnonymizer(anon_pwd=True, anon_ip=False, salt="S", reserved_words=[args["user_word"]])
    o = io.StringIO()
    line = "username admin password 0 %s\n" % args["word"]
    fa.anonymize_io(io.StringIO(line), o)
    return dict(violated=o.getvalue() != line, observed=o.getvalue(), detail="%r -> %r" % (line, o.getvalue()))


@register("text_structure")
def text_structure(fam, args):
    """C12: line count/order, leading+trailing whitespace and terminator, locality, verbatim benign tokens"""
    lines, kw, what = args["lines"], args["kw"], args["what"]
    extra = args.get("extra") or {}

    def run(ls):
        _reseed_passlib()
        fa = fam.files.FileAnonymizer(**kw)

        class In:
            def readlines(self):
                return list(ls)
        ws = []

        class O:
            def write(self, s):
                ws.append(s)
        fa.anonymize_io(In(), O())
        return ws
    try:
        outs = run(lines)
    except Exception as e:
        return dict(violated=True, observed="EXC:%s" % type(e).__name__, detail=repr(e))
    why = []
    if len(outs) != len(lines):
        why.append("%d lines in, %d writes" % (len(lines), len(outs)))
    else:
        for l, o in zip(lines, outs):
            lead = l[:len(l) - len(l.lstrip())]
            trail = l[len(l.rstrip()):]
            if o[:len(o) - len(o.lstrip())] != lead or o[len(o.rstrip()):] != trail:
                why.append("leading/trailing whitespace or terminator changed: %r -> %r" % (l, o))
        if what == "locality" and len(lines) == 2:
            alone = run(lines[1:])
            if alone[0] != outs[1]:
                why.append("line 2 gives %r after line 1 but %r alone" % (outs[1], alone[0]))
        if what == "verbatim":
            for l, o in zip(lines, outs):
                if l.split() != o.split():
                    why.append("tokens changed: %r -> %r" % (l, o))
                elif o != l and not extra.get("collapse"):
                    why.append("whitespace changed although no stage may collapse it: %r -> %r" % (l, o))
    return dict(violated=bool(why), observed=outs, detail="; ".join(why))


@register("cli_contract")
def cli_contract(fam, args):
    """C19: main() below _parse_args with a given Namespace (anonymize_files recorded), or host_bits(text), or the parser defaults"""
    import argparse
    what, fields = args["what"], args["fields"]
    RFC = ["10.0.0.0/8", "172.16.0.0/12", "192.168.0.0/16"]
    if what == "hostbits":
        t = fields["text"]
        try:
            r = fam.cli.host_bits(t)
            raised = False
        except Exception:
            r, raised = None, True
        try:
            v = int(t)
        except ValueError:
            v = None
        ok_in = v is not None and 0 <= v <= 32
        bad = (raised and ok_in) or (not raised and (not ok_in or r != v))
        return dict(violated=bad, observed=r, detail="host_bits(%r) -> %r raised=%r" % (t, r, raised))
    if what == "defaults":
        d = vars(fam.cli._parse_args(["-i", "in", "-o", "out"]))
        bad = d.get("preserve_host_bits") != 8 or sorted((d.get("preserve_prefixes") or "").split(",")) != sorted(["0.0.0.0/1", "128.0.0.0/2", "192.0.0.0/3", "224.0.0.0/4"] + RFC)
        return dict(violated=bad, observed={k: d.get(k) for k in ("preserve_host_bits", "preserve_prefixes")}, detail="parser defaults")
    calls = []
    saved = (fam.cli._parse_args, fam.cli.anonymize_files)
    fam.cli._parse_args = lambda argv: argparse.Namespace(**fields)
    fam.cli.anonymize_files = lambda *a, **k: calls.append((a, k))
    try:
        try:
            fam.cli.main([])
            exc = None
        except Exception as e:
            exc = e
    finally:
        fam.cli._parse_args, fam.cli.anonymize_files = saved
    f = fields
    must_reject = (not f["input"]) or (not f["output"]) or (f["undo"] and f["anonymize_ips"]) or (f["undo"] and f["salt"] is None) or (f["dump_ip_map"] is not None and not f["anonymize_ips"])
    enabled = bool(f["as_numbers"]) or bool(f["sensitive_words"]) or f["anonymize_passwords"] or f["anonymize_ips"] or f["undo"]
    why = []
    if must_reject:
        if exc is None or calls:
            why.append("contradictory options not rejected before anything is written")
    elif not enabled:
        if exc is not None or calls:
            why.append("nothing enabled but something ran / raised")
    else:
        if exc is not None or len(calls) != 1:
            why.append("valid combination rejected or not run exactly once (%r)" % (exc,))
        else:
            names = ["input_path", "output_path", "anon_pwd", "anon_ip", "salt", "dumpfile", "sensitive_words", "undo_ip_anon", "as_numbers", "reserved_words",
                     "preserve_prefixes", "preserve_networks", "preserve_suffix_v4", "preserve_suffix_v6"]
            c = dict(zip(names, calls[0][0]))
            c.update(calls[0][1])
            split = lambda v: None if v is None else v.split(",")
            nets = split(f["preserve_addresses"])
            if f["preserve_private_addresses"]:
                nets = (nets or []) + RFC
            want = dict(anon_pwd=f["anonymize_passwords"], anon_ip=f["anonymize_ips"], salt=f["salt"], sensitive_words=split(f["sensitive_words"]), undo_ip_anon=f["undo"],
                        as_numbers=split(f["as_numbers"]), reserved_words=split(f["reserved_words"]), preserve_prefixes=split(f["preserve_prefixes"]),
                        preserve_suffix_v4=f["preserve_host_bits"], preserve_suffix_v6=f["preserve_host_bits"], dumpfile=f["dump_ip_map"])
            for k, v in want.items():
                if c.get(k) != v:
                    why.append("%s=%r, documented mapping gives %r" % (k, c.get(k), v))
            g = c.get("preserve_networks")
            if (None if g is None else sorted(g)) != (None if nets is None else sorted(nets)):
                why.append("preserve_networks=%r, documented mapping gives %r" % (g, nets))
    return dict(violated=bool(why), observed=dict(raised=type(exc).__name__ if exc else None, calls=len(calls)), detail="; ".join(why))


@register("compose")
def compose(fam, args):
    """C15: FileAnonymizer with a feature subset vs the chain of single-feature FileAnonymizers (same salt and options)"""
    lines, subset, o, undo, what = args["lines"], args["subset"], args["opt"], args["undo"], args["what"]

    def kw_for(sub):
        kw = dict(anon_pwd="pwd" in sub, anon_ip=("ip" in sub and not undo), undo_ip_anon=("ip" in sub and undo), salt=o["salt"])
        if "words" in sub:
            kw["sensitive_words"] = ["lon", "db8"]
        if "as" in sub:
            kw["as_numbers"] = ["65001", "650"]
        if "ip" in sub:
            kw.update(preserve_suffix_v4=o["suffix4"], preserve_suffix_v6=o["suffix6"], preserve_networks=o["networks"], preserve_prefixes=o["prefixes"])
        if o["reserved"]:
            kw["reserved_words"] = list(o["reserved"])
        return kw

    def run(fa, ls):
        out = io.StringIO()
        fa.anonymize_io(io.StringIO("".join(ls)), out)
        return out.getvalue().splitlines(True)
    _reseed_passlib()
    try:
        if what == "streams":
            fa = fam.files.FileAnonymizer(**kw_for(subset))
            a = run(fa, lines[:2]) + run(fa, lines[2:])
            b = run(fam.files.FileAnonymizer(**kw_for(subset)), lines)
        else:
            a = run(fam.files.FileAnonymizer(**kw_for(subset)), lines)
            b = lines
            for f in ["pwd", "ip", "words", "as"]:
                if f in subset:
                    b = run(fam.files.FileAnonymizer(**kw_for([f])), b)
    except Exception as e:
        return dict(violated=True, observed=["EXC:%s" % type(e).__name__], detail=repr(e))
    diff = [(x, y) for x, y in zip(a, b) if x != y]
    return dict(violated=(a != b), observed=a, detail="first difference: %r" % (diff[:1],))


def _expected_ip_line(fam, family, line):
    """independent token scanner + reference map (fresh anonymizer of the real class for the value mapping only)"""
    import ipaddress
    import re
    cfg = dict(prefixes=[], networks=None, B=0)
    out, i, kinds = [], 0, []
    alnum = "abcdefghijklmnopqrstuvwxyzABCDEFGHIJKLMNOPQRSTUVWXYZ0123456789"
    tchars = alnum + (":" if family == 6 else ".")
    while i < len(line):
        if line[i] in tchars:
            j = i
            while j < len(line) and line[j] in tchars:
                j += 1
            tok = line[i:j]
            if family == 6:
                m = re.match(r"(\.\d{1,3}){3}(?![0-9A-Za-z:.])", line[j:])
                if m:
                    try:
                        ipaddress.IPv6Address(tok + m.group(0))
                        tok, j = tok + m.group(0), j + len(m.group(0))
                    except ValueError:
                        pass
            val = None
            if family == 4:
                parts = tok.split(".")
                if len(parts) == 4 and all(p.isdigit() and p.isascii() for p in parts) and all(int(p) <= 255 for p in parts):
                    val = int(ipaddress.IPv4Address(".".join(str(int(p)) for p in parts)))
            else:
                try:
                    val = int(ipaddress.IPv6Address(tok))
                except ValueError:
                    val = None
            if val is None:
                out.append(tok)
                kinds.append("kept")
            else:
                an = _mk_ip(fam, cfg, family)
                if family == 4 and not an.should_anonymize(val):
                    out.append(tok)
                    kinds.append("mask")
                else:
                    img = an.anonymize(val)
                    out.append(str(ipaddress.IPv4Address(img) if family == 4 else ipaddress.IPv6Address(img)))
                    kinds.append("replaced")
            i = j
        else:
            out.append(line[i])
            i += 1
    return "".join(out), kinds


@register("ip_token")
def ip_token(fam, args):
    """C06: anonymize_ip_addr on a line vs the independent token scanner"""
    family, kind = args["family"], args["kind"]
    text = args.get("text")
    if text is None:
        return dict(violated=True, observed=None, detail="structural difference of the pattern's delimiters")
    line = text if kind == "line" else "x %s y\n" % text

    def run():
        an = _mk_ip(fam, dict(prefixes=[], networks=None, B=0), family)
        try:
            got = fam.ip.anonymize_ip_addr(an, line, False)
        except Exception as e:
            got = "EXC:%s" % type(e).__name__
        want, kinds = _expected_ip_line(fam, family, line)
        return got, want, kinds
    (got, want, kinds), misses = _with_md5(fam, args, run)
    k = "replaced" if "replaced" in kinds else ("mask" if "mask" in kinds else "kept")
    return dict(violated=(got != want), observed=got, kind=k, detail="%r -> %r, independent scanner expects %r" % (line, got, want), misses=misses)


@register("ip_network_contract")
def ip_network_contract(fam, args):
    """C05: for one preserved network: should_anonymize agrees with (mask-shaped or inside), and the image is inside iff the address is"""
    import ipaddress
    cfg, a = args["cfg"], args["a"]

    def run():
        an = _mk_ip(fam, cfg, 4)
        return an.should_anonymize(a), an.anonymize(a)
    try:
        (should, img), misses = _with_md5(fam, args, run)
    except Exception as e:
        return dict(violated=True, observed="EXC:%s" % type(e).__name__, detail=repr(e))
    nets = [ipaddress.ip_network(x) for x in cfg["networks"]]
    inside = any(ipaddress.IPv4Address(a) in n for n in nets)
    bad = (should != (not (inside or _is_mask_spec(a)))) or any((ipaddress.IPv4Address(img) in n) != (ipaddress.IPv4Address(a) in n) for n in nets)
    return dict(violated=bad, observed=[should, img], detail="a=%s inside=%r should=%r image=%s" % (ipaddress.IPv4Address(a), inside, should, ipaddress.IPv4Address(img)), misses=misses)


@register("secret_format_history")
def secret_format_history(fam, args):
    """C09-H3: a $9$ value and the clear text of the same plaintext through one lookup; the clear text keeps its own format"""
    import re
    p = args["plaintext"]
    X = fam.jun.juniper_nonrandom_encrypt(p, "a")
    lookup = {}
    seq = [X, p] if args["order"] == "j9-first" else [p, X]
    outs = [fam.sir._anonymize_value(v, lookup, fam.words.default_reserved_words, "S") for v in seq]
    clear_out = outs[1] if args["order"] == "j9-first" else outs[0]
    ok = bool(re.fullmatch(r"[0-9]+", clear_out)) if p.isdigit() else bool(re.fullmatch(r"[0-9a-fA-F]+", clear_out))
    return dict(violated=not ok, observed=outs, detail="%r -> %r" % (seq, outs))
