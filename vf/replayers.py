"""Concrete replayers: run the *un-instrumented* netconan on concrete inputs and say whether the property's
observable is violated.  No z3, no import hook in here -- this file is what `./check <ID> --replay <file>` and the
fresh-process confirmation of every solver counterexample execute (with /venv/bin/python and /repo on sys.path),
and what the in-worker concolic cross-check of explored paths calls with the plain module family.

Each replayer: f(fam, args) -> dict(violated=bool, observed=..., detail=str)
`fam` offers .ip .sir .files .cli .jun .words (modules).
"""
import io
import hashlib


class PlainFamily:
    def __init__(self):
        import netconan.ip_anonymization as ip
        import netconan.sensitive_item_removal as sir
        import netconan.anonymize_files as files
        import netconan.netconan as cli
        import netconan.utils.juniper_secrets as jun
        import netconan.default_reserved_words as words
        import ipaddress
        self.ip, self.sir, self.files, self.cli, self.jun, self.words, self.ipaddress = ip, sir, files, cli, jun, words, ipaddress


class TableMd5:
    """md5 test double driven by a finite table {input text: hex digest}; a miss falls back to the real md5 and is
    counted (a replay with misses does not faithfully realise the solver's hash function)."""

    def __init__(self, table):
        self.table = table
        self.misses = []

    def __call__(self, data=b""):
        outer = self
        text = data.decode("utf-8")

        class _H:
            def hexdigest(self_):
                if text in outer.table:
                    return outer.table[text]
                outer.misses.append(text)
                return hashlib.md5(data).hexdigest()
        return _H()


class patched_md5:
    """context manager: install a md5 double in the netconan modules that import md5 by name"""

    def __init__(self, fam, double):
        self.fam, self.double = fam, double

    def __enter__(self):
        self.saved = []
        for m in (self.fam.ip, self.fam.sir):
            if hasattr(m, "md5"):
                self.saved.append((m, m.md5))
                m.md5 = self.double
        return self

    def __exit__(self, *a):
        for m, v in self.saved:
            m.md5 = v


def _mk_ip(fam, cfg, family=4):
    """cfg: dict(prefixes=None|list, networks=None|list, B=int)"""
    if family == 4:
        pf = cfg.get("prefixes")
        nets = cfg.get("networks")
        return fam.ip.IpAnonymizer(cfg.get("salt", "S"), None if pf is None else list(pf),
                                   None if nets is None else list(nets), preserve_suffix=cfg.get("B"))
    return fam.ip.IpV6Anonymizer(cfg.get("salt", "S"), preserve_suffix=cfg.get("B"))


def _cpl(x, y, w):
    """common prefix length of two w-bit ints"""
    d = x ^ y
    return w if d == 0 else w - d.bit_length()


def _with_md5(fam, args, fn):
    table = args.get("md5_table")
    if table is None:
        return fn(), []
    dbl = TableMd5(table)
    with patched_md5(fam, dbl):
        r = fn()
    return r, dbl.misses


def ip_requests(fam, args):
    """Run a sequence of requests on one anonymizer (and optionally fresh ones) and report all results.
    args: family, cfg, requests=[["a"|"d", int], ...], md5_table
    returns results list (ints or 'EXC:<type>')."""
    w = 32 if args["family"] == 4 else 128

    def run():
        an = _mk_ip(fam, args["cfg"], args["family"])
        out = []
        for kind, x in args["requests"]:
            try:
                out.append(an.anonymize(x) if kind == "a" else an.deanonymize(x))
            except Exception as e:  # observation
                out.append("EXC:%s" % type(e).__name__)
        fresh = []
        for kind, x in args["requests"]:
            f = _mk_ip(fam, args["cfg"], args["family"])
            try:
                fresh.append(f.anonymize(x) if kind == "a" else f.deanonymize(x))
            except Exception as e:
                fresh.append("EXC:%s" % type(e).__name__)
        return out, fresh
    (out, fresh), misses = _with_md5(fam, args, run)
    return dict(results=out, fresh=fresh, misses=misses, width=w)


def ip_pair(fam, args):
    """C01: two addresses on one instance (or two fresh ones): common prefix length must be preserved."""
    a, b = args["a"], args["b"]
    req = dict(args)
    req["requests"] = [["a", a], ["a", b]]
    r = ip_requests(fam, req)
    w = r["width"]
    res = r["results"] if args.get("shared", True) else r["fresh"]
    if any(isinstance(x, str) for x in res):
        return dict(violated=True, observed=res, detail="anonymize raised", misses=r["misses"])
    bad = _cpl(a, b, w) != _cpl(res[0], res[1], w)
    return dict(violated=bad, observed=res, detail="cpl(in)=%d cpl(out)=%d" % (_cpl(a, b, w), _cpl(res[0], res[1], w)), misses=r["misses"])


REPLAYERS = {"ip_requests": ip_requests, "ip_pair": ip_pair}


def register(name):
    def deco(f):
        REPLAYERS[name] = f
        return f
    return deco


@register("ip_roundtrip")
def ip_roundtrip(fam, args):
    """C02: fresh X does first(x) -> y; fresh Y does the opposite(y); must return x and nothing may raise."""
    first = args["first"]
    other = "d" if first == "a" else "a"

    def run():
        X = _mk_ip(fam, args["cfg"], args["family"])
        Y = _mk_ip(fam, args["cfg"], args["family"])
        try:
            y = X.anonymize(args["x"]) if first == "a" else X.deanonymize(args["x"])
            z = Y.deanonymize(y) if first == "a" else Y.anonymize(y)
            return [y, z]
        except Exception as e:
            return ["EXC:%s" % type(e).__name__]
    r, misses = _with_md5(fam, args, run)
    bad = len(r) < 2 or r[1] != args["x"]
    return dict(violated=bad, observed=r, detail="x=%d -> %r" % (args["x"], r), misses=misses)


@register("ip_warm_inverse")
def ip_warm_inverse(fam, args):
    def run():
        X = _mk_ip(fam, args["cfg"], args["family"])
        Y = _mk_ip(fam, args["cfg"], args["family"])
        try:
            y = X.anonymize(args["a"])
            for kind, x in args["warmup"]:
                Y.anonymize(x) if kind == "a" else Y.deanonymize(x)
            return [y, Y.deanonymize(y)]
        except Exception as e:
            return ["EXC:%s" % type(e).__name__]
    r, misses = _with_md5(fam, args, run)
    bad = len(r) < 2 or r[1] != args["a"]
    return dict(violated=bad, observed=r, detail="a=%d -> %r" % (args["a"], r), misses=misses)


def _is_mask_spec(x):
    """independent spec: ones-then-zeros or zeros-then-ones (32 bit)"""
    for k in range(33):
        if x == (1 << k) - 1 or x == 0xFFFFFFFF ^ ((1 << k) - 1):
            return True
    return False


@register("ip_match_roundtrip")
def ip_match_roundtrip(fam, args):
    """C02-H3 / C05-H2: token through _anonymize_match forward (X) and undo (fresh Y)."""
    import ipaddress
    family, cfg, a = args["family"], args["cfg"], args["a"]
    mk = ipaddress.IPv4Address if family == 4 else ipaddress.IPv6Address

    def run():
        X = _mk_ip(fam, cfg, family)
        Y = _mk_ip(fam, cfg, family)
        t0 = str(mk(a))
        try:
            t1 = fam.ip._anonymize_match(X, t0, False)
            t2 = fam.ip._anonymize_match(Y, t1, True)
        except Exception as e:
            return dict(texts=[t0, "EXC:%s" % type(e).__name__, None], values=[None, None])
        return dict(texts=[t0, t1, t2], values=[int(mk(t1)), int(mk(t2))])
    r, misses = _with_md5(fam, args, run)
    v1, v2 = r["values"]
    if v1 is None:
        bad = True
    elif family == 4:
        nets = [ipaddress.ip_network(n) for n in (cfg.get("networks") or [])]
        keep = _is_mask_spec(a) or any(mk(a) in n for n in nets)
        if keep:
            bad = r["texts"][1] != r["texts"][0] or r["texts"][2] != r["texts"][0]
        elif _is_mask_spec(v1):
            bad = v2 != v1
        else:
            bad = v2 != a
    else:
        bad = v2 != a
    r.update(violated=bad, detail="texts=%r" % (r["texts"],), misses=misses)
    return r
