"""symx core: replay-based path explorer and z3-backed proxy values.

The code under test (real netconan / stdlib ipaddress function objects, loaded through
vf.instr) runs on these proxies.  Every branch on a symbolic condition is decided by z3;
both feasible sides are explored (DFS, re-execution from the start with a recorded
decision prefix).  Nothing here guesses: anything the proxies cannot express raises
EngineError, which the runner reports as *inconclusive* (exit 2), never as success.
"""
import time
import os
import z3

CW = 8  # character width: the string domain is Latin-1 (code points 0..255)


class EngineError(BaseException):
    """The engine cannot model what the code under test just did (-> inconclusive)."""


class Inconclusive(BaseException):
    """Solver said unknown / budget exhausted (-> inconclusive)."""


class _Abort(BaseException):
    """Current path is infeasible."""


_SIMP_MEMO = {}
_LEARN_MEMO = {}
GLOBAL_RESETTERS = []  # callables run at the start of every explored path (environment models register here)
EX = None  # the active explorer (None while modules are merely being imported)


def active():
    return EX is not None and EX.running


# --------------------------------------------------------------------------- explorer
class Path:
    __slots__ = ("decisions", "result", "exc", "pc", "model", "extra")

    def __init__(self, decisions, result, exc, pc, extra):
        self.decisions, self.result, self.exc, self.pc, self.extra = decisions, result, exc, pc, extra
        self.model = None


class Explorer:
    def __init__(self, solver_timeout_ms=None, max_paths=200000, deadline=None):
        if solver_timeout_ms is None:
            solver_timeout_ms = int(os.environ.get("VF_SOLVER_TIMEOUT_MS", "10000"))
        self.solver = z3.Solver()
        self.solver.set("timeout", solver_timeout_ms)
        self.timeout_ms = solver_timeout_ms
        self.nqueries = 0
        self.nsat = self.nunsat = self.nunknown = 0
        self.tsolve = 0.0
        self.npaths = 0
        self.nnodes = 1
        self.nedges = 0
        self.max_paths = max_paths
        self.deadline = deadline
        self.running = False
        self.resetters = []
        self.fresh_counter = 0
        self.path_assumptions = []
        self.path_data = {}
        self.known = {}
        self.branch_memo = {}
        self.char_sets = {}
        self._capture = None
        self.stop_requested = False

    # -- solver access
    def check(self, *extra):
        self.nqueries += 1
        t = time.time()
        r = self.solver.check(*extra)
        if r == z3.unknown and self.nunknown < 6:
            # one retry with a long time limit before the answer is recorded as unknown
            self.solver.set("timeout", self.timeout_ms * 9)
            try:
                r = self.solver.check(*extra)
            finally:
                self.solver.set("timeout", self.timeout_ms)
        self.tsolve += time.time() - t
        if r == z3.sat:
            self.nsat += 1
        elif r == z3.unsat:
            self.nunsat += 1
        else:
            # `unknown` is never taken for an answer: a branch side is then explored as *possibly* feasible (sound for
            # finding violations, which are replayed concretely anyway) and the work item cannot end as `holds`
            self.nunknown += 1
            if self.nunknown > 50:
                raise Inconclusive("z3 returned unknown too often: %s" % self.solver.reason_unknown())
        if self.deadline is not None and time.time() > self.deadline:
            raise Inconclusive("work item exceeded its time budget")
        return r

    def is_sat(self, *extra):
        """conservative: `unknown` counts as possibly satisfiable"""
        return self.check(*[self.subst_known(e) for e in extra]) != z3.unsat

    def model(self, *extra):
        if self.check(*[self.subst_known(e) for e in extra]) != z3.sat:
            return None
        return self.solver.model()

    def capture(self, fn):
        """Run a predicate whose result is the outcome of exactly one symbolic comparison and return that comparison
        as a z3 Bool instead of forking on it."""
        self._capture = []
        try:
            r = fn()
            got = self._capture
        finally:
            self._capture = None
        if isinstance(r, bool) and not got:
            return z3.BoolVal(r)
        if r is not True or len(got) != 1:
            raise EngineError("capture: predicate is not a single comparison")
        return got[0]

    def subst_known(self, e):
        """rewrite e with the `term == constant` facts implied by the path condition (sound under that condition)"""
        if not self.known or isinstance(e, bool):
            return e
        pairs = [(t, z3.BitVecVal(v, t.size())) for t, v in self.known.values()]
        return z3.simplify(z3.substitute(e, *pairs))

    def assume(self, e):
        if isinstance(e, bool):
            if not e:
                raise _Abort()
            return
        self.solver.add(e)
        self.path_assumptions.append(e)

    def fresh(self, prefix, width):
        """Fresh bit-vector whose name is deterministic along a path (replay-stable)."""
        self.fresh_counter += 1
        return z3.BitVec("%s!%d" % (prefix, self.fresh_counter), width)

    # -- branching
    def _next_decision(self):
        if self.pos < len(self.decisions):
            d = self.decisions[self.pos]
            self.pos += 1
            return d
        return None

    def branch(self, cond):
        """cond: z3 Bool -> python bool; forks when both sides are feasible."""
        if isinstance(cond, bool):
            return cond
        if self._capture is not None:
            self._capture.append(cond)
            return True
        raw = cond
        memo = self.branch_memo.get(raw.get_id())
        if memo is not None:
            return memo[1]      # same condition already decided on this path
        sk = _SIMP_MEMO.get(raw.get_id())
        if sk is None:
            if len(_SIMP_MEMO) > 400000:
                _SIMP_MEMO.clear()
            sk = _SIMP_MEMO[raw.get_id()] = (z3.simplify(raw), raw)
        cond = sk[0]
        if z3.is_true(cond):
            return True
        if z3.is_false(cond):
            return False
        d = self._next_decision()
        if d is None:
            can_t = self.check(cond) != z3.unsat
            can_f = self.check(z3.Not(cond)) != z3.unsat
            if can_t and can_f:
                self.pending.append(self.decisions[: self.pos] + [0])
                self.nnodes += 2
                self.nedges += 2
                d = 1
            elif can_t:
                d = 3   # forced true: implied by the path condition, nothing to add
            elif can_f:
                d = 2   # forced false
            else:
                raise _Abort()
            self.decisions.append(d)
            self.pos += 1
        if d >= 2:
            self._learn(raw, d == 3)
            self._learn(cond, d == 3)
            self.branch_memo[raw.get_id()] = (raw, d == 3)
            return d == 3
        c = cond if d else z3.Not(cond)
        self.solver.add(c)
        self.path_assumptions.append(c)
        self._learn(raw, bool(d))
        self._learn(cond, bool(d))
        self.branch_memo[raw.get_id()] = (raw, bool(d))
        return bool(d)

    # -- constant propagation: characters pinned by the path condition
    def _learn(self, cond, truth):
        """Record `term == constant` facts implied by a decided branch (used to canonicalise hash arguments)."""
        key = (cond.get_id(), truth)
        facts = _LEARN_MEMO.get(key)
        if facts is None:
            tmp, self.known = self.known, {}
            try:
                self._learn0(cond, truth)
                facts = (cond, list(self.known.items()))
            finally:
                self.known = tmp
            if len(_LEARN_MEMO) > 400000:
                _LEARN_MEMO.clear()
            _LEARN_MEMO[key] = facts
        for k, v in facts[1]:
            self.known[k] = v

    def _learn0(self, cond, truth):
        if truth:
            stack = [cond]
            while stack:
                c = stack.pop()
                if z3.is_and(c):
                    stack.extend(c.children())
                elif z3.is_eq(c):
                    l, r = c.children()
                    if z3.is_bv_value(r) and not z3.is_bv_value(l):
                        self.known[l.get_id()] = (l, r.as_long())
                    elif z3.is_bv_value(l) and not z3.is_bv_value(r):
                        self.known[r.get_id()] = (r, l.as_long())
        elif z3.is_eq(cond):
            l, r = cond.children()
            if z3.is_bv_value(l):
                l, r = r, l
            if z3.is_bv_value(r) and not z3.is_bv_value(l) and l.size() == 1:
                self.known[l.get_id()] = (l, 1 - r.as_long())
            elif z3.is_bv_value(r) and l.get_id() in CHAR_DIGIT:
                val = CHAR_DIGIT[l.get_id()][1]
                if val.lo == 0 and val.hi == 1 and r.as_long() in (48, 49):
                    self.known[l.get_id()] = (l, 97 - r.as_long())

    def canon_char(self, c):
        """the constant a symbolic character is pinned to on this path, else the character itself"""
        if isinstance(c, int) or isinstance(c, Atom):
            return c
        k = self.known.get(c.get_id())
        return c if k is None else k[1]

    def choice(self, k, label="choice"):
        """Environment choice among k alternatives (no solver involved): explores all k."""
        if k <= 1:
            return 0
        d = self._next_decision()
        if d is None:
            for alt in range(k - 1, 0, -1):
                self.pending.append(self.decisions[: self.pos] + [alt])
            self.nnodes += k
            self.nedges += k
            d = 0
            self.decisions.append(d)
            self.pos += 1
        return d

    def fork_values(self, e, candidates):
        """Fork over the feasible concrete values of bit-vector e among candidates."""
        cands = list(candidates)
        d = self._next_decision()
        if d is None:
            feas = [i for i, v in enumerate(cands) if self.check(e == v) != z3.unsat]
            if not feas:
                raise _Abort()
            for i in reversed(feas[1:]):
                self.pending.append(self.decisions[: self.pos] + [i])
            if len(feas) > 1:
                self.nnodes += len(feas)
                self.nedges += len(feas)
            d = feas[0]
            self.decisions.append(d)
            self.pos += 1
        c = e == cands[d]
        self.solver.add(c)
        self.path_assumptions.append(c)
        return cands[d]

    # -- exploration
    def explore(self, harness, want_model=True):
        """Run harness(self) along every feasible path. Returns list of Path."""
        global EX
        prev = EX
        EX = self
        self.pending = [[]]
        out = []
        try:
            while self.pending:
                if self.stop_requested:
                    break      # the harness has what it needs (a violation): remaining paths are not explored
                if self.npaths >= self.max_paths:
                    raise Inconclusive("path budget exhausted (%d)" % self.max_paths)
                if self.deadline is not None and time.time() > self.deadline:
                    raise Inconclusive("work item exceeded its time budget")
                prefix = self.pending.pop()
                self.decisions = list(prefix)
                self.pos = 0
                self.fresh_counter = 0
                self.path_assumptions = []
                self.path_data = {}
                self.known = {}
                self.branch_memo = {}
                self.char_sets = {}
                self.solver.push()
                for r in GLOBAL_RESETTERS + self.resetters:
                    r()
                self.running = True
                try:
                    res, exc = None, None
                    try:
                        res = harness(self)
                    except _Abort:
                        continue
                    except (EngineError, Inconclusive):
                        raise
                    except Exception as e:  # an exception raised by the code under test: an observation
                        _triage_exception(e)
                        exc = e
                    p = Path(list(self.decisions), res, exc, list(self.path_assumptions), self.path_data)
                    if want_model:
                        self.running = False
                        if self.check() == z3.sat:
                            p.model = self.solver.model()
                    out.append(p)
                    self.npaths += 1
                finally:
                    self.running = False
                    self.solver.pop()
        finally:
            EX = prev
        return out

    def stats(self):
        return dict(paths=self.npaths, states=self.nnodes, transitions=self.nedges, queries=self.nqueries,
                    sat=self.nsat, unsat=self.nunsat, unknown=self.nunknown, solver_s=round(self.tsolve, 3))


import re as _re
_PROXY_NAME = _re.compile(r"\b(SInt|SStr|SBytes|SFloat|Atom|SymDict|SymSet|SymBidict|IpKey|LazyChars|SymPattern|SymMatch|sx_\w+)\b")


def _triage_exception(e):
    """An exception counts as an observation of the code under test only if it was raised by that code, by a
    library it called, or by a deliberate `raise` in a model.  Anything else (z3 errors, a crash inside the
    engine) is an engine error."""
    import linecache
    import os
    if isinstance(e, z3.Z3Exception):
        raise EngineError("z3 error: %s" % e)
    if isinstance(e, (TypeError, AttributeError)) and _PROXY_NAME.search(str(e)):
        # "unsupported operand type(s) for divmod(): 'SInt' and 'int'", "'SymSet' object has no attribute ...": the real
        # operand types would not have raised this - a gap in the proxies, not a behaviour of the code under test
        raise EngineError("operation not modelled by a proxy: %s: %s" % (type(e).__name__, e))
    tb = e.__traceback__
    last = None
    while tb is not None:
        last = tb
        tb = tb.tb_next
    if last is None:
        return
    fn = last.tb_frame.f_code.co_filename
    here = os.path.dirname(os.path.abspath(__file__))
    if os.path.abspath(fn).startswith(here) or "/z3/" in fn:
        line = linecache.getline(fn, last.tb_lineno).strip()
        if not line.startswith("raise ") and "# passthrough" not in line:
            raise EngineError("engine crashed: %s: %s at %s:%d (%s)" % (type(e).__name__, e, fn, last.tb_lineno, line))


# --------------------------------------------------------------------------- helpers
_INSET_MEMO = {}


def in_set_expr(c, s):
    """z3 Bool: 8-bit c is a member of the set of code points s (range-compressed)."""
    if type(s) is not frozenset:
        s = frozenset(s)
    key = (c.get_id(), s)
    r = _INSET_MEMO.get(key)
    if r is None:
        if len(_INSET_MEMO) > 300000:
            _INSET_MEMO.clear()
        r = _INSET_MEMO[key] = (_in_set_expr(c, s), c)
    return r[0]


def _in_set_expr(c, s):
    if not s:
        return z3.BoolVal(False)
    xs = sorted(s)
    ranges = []
    lo = prev = xs[0]
    for x in xs[1:]:
        if x != prev + 1:
            ranges.append((lo, prev))
            lo = x
        prev = x
    ranges.append((lo, prev))
    if ranges == [(0, 255)]:
        return z3.BoolVal(True)
    return z3.Or(*[(c == a) if a == b else z3.And(z3.UGE(c, a), z3.ULE(c, b)) for a, b in ranges])


# Side table: z3 ast id of a character term -> (term, frozenset of the only code points it can take).  Filled by table
# look-ups (the result of NUM_ALPHA[i] is one of the table's entries); lets class tests be decided without the solver.
CHAR_SET = {}


def register_char_set(c, values, scoped=False):
    """values: the only code points c can take.  scoped=True: a fact about a *variable* that holds on the current path
    only (an assumption of the harness); otherwise a structural fact about the term that holds universally."""
    if not isinstance(c, int) and not isinstance(c, Atom):
        if scoped:
            EX.char_sets[c.get_id()] = (c, frozenset(values))
        else:
            CHAR_SET[c.get_id()] = (c, frozenset(values))
    return c


def _char_set_of(c):
    cs = CHAR_SET.get(c.get_id())
    if cs is None and EX is not None:
        cs = EX.char_sets.get(c.get_id())
    return cs


def char_in_expr(c, s):
    """z3 Bool for 'c in s' using the value-set table when it decides the question"""
    if isinstance(c, int):
        return z3.BoolVal(c in s)
    cs = _char_set_of(c)
    if cs is not None:
        if cs[1] <= s:
            return z3.BoolVal(True)
        if not (cs[1] & s):
            return z3.BoolVal(False)
    return in_set_expr(c, s)


def char_in(c, s):
    """python bool (forking): character c (int or BV8) is in code-point set s."""
    if isinstance(c, int):
        return c in s
    if isinstance(c, Atom):
        raise EngineError("character test on a rendered symbolic value")
    cs = _char_set_of(c)
    if cs is not None:
        if cs[1] <= s:
            return True
        if not (cs[1] & s):
            return False
    return EX.branch(in_set_expr(c, s))


_BVCONST = [z3.BitVecVal(i, CW) for i in range(256)]
_TRUE, _FALSE = z3.BoolVal(True), z3.BoolVal(False)


def _cbv(c):
    return _BVCONST[c] if isinstance(c, int) else c


WS = frozenset(c for c in range(256) if chr(c).isspace())
DIGITS = frozenset(range(48, 58))
HEXV = {ord(c): int(c, 16) for c in "0123456789abcdefABCDEF"}
LOWER = {c: ord(chr(c).lower()) for c in range(256) if len(chr(c).lower()) == 1 and ord(chr(c).lower()) < 256}
UPPER = {c: ord(chr(c).upper()) for c in range(256) if len(chr(c).upper()) == 1 and ord(chr(c).upper()) < 256}


# Side table: z3 ast id of a character term -> (term, digit value as SInt/int, base).  Characters produced by rendering
# a known small integer (bit strings, hex digests, single digits) remember the integer, so that parsing them back
# (`int(c)`, `int(c, 16)`) is the identity instead of an if-then-else chain the solver has to invert.
CHAR_DIGIT = {}


def _digit_char(value, base):
    """BV8 character for the digit `value` (SInt with 0 <= value < base <= 16), registered in CHAR_DIGIT."""
    if isinstance(value, int):
        return ord("0123456789abcdef"[value])
    v8 = z3.Extract(CW - 1, 0, value.ext(max(value.w, CW)))
    if value.hi <= 9:
        c = v8 + 48
    else:
        c = z3.If(z3.ULT(v8, 10), v8 + 48, v8 + 87)
    c = z3.simplify(c)
    if z3.is_bv_value(c):
        return c.as_long()
    CHAR_DIGIT[c.get_id()] = (c, value)
    return c


class Atom:
    """Opaque canonical rendering of a symbolic integer inside an SStr.

    kind: 'ipv4' | 'ipv6' (canonical text of ipaddress.__str__) | 'dec' (str(int)).
    The rendering is injective in the value, which is all that equality needs; anything that
    would have to look at the characters raises EngineError.
    """
    __slots__ = ("kind", "e")

    def __init__(self, kind, e):
        self.kind, self.e = kind, e

    def __repr__(self):
        return "<%s %s>" % (self.kind, z3.simplify(self.e))


RENDER_ATOMS = [False]


def _render_octet(o):
    """decimal text of an 8-bit value, shape by forking"""
    if EX.branch(z3.ULT(o, 10)):
        n = 1
    elif EX.branch(z3.ULT(o, 100)):
        n = 2
    else:
        n = 3
    ten, hundred = z3.BitVecVal(10, 8), z3.BitVecVal(100, 8)
    digits = {1: [o], 2: [z3.UDiv(o, ten), z3.URem(o, ten)], 3: [z3.UDiv(o, hundred), z3.URem(z3.UDiv(o, ten), ten), z3.URem(o, ten)]}[n]
    return [_digit_char(SInt(z3.ZeroExt(1, d), 0, 9, CW + 1), 10) for d in digits]


def _render_hextet(g):
    """lower-case hex text of a 16-bit value without leading zeros, shape by forking"""
    if EX.branch(z3.ULT(g, 0x10)):
        n = 1
    elif EX.branch(z3.ULT(g, 0x100)):
        n = 2
    elif EX.branch(z3.ULT(g, 0x1000)):
        n = 3
    else:
        n = 4
    out = []
    for k in range(n - 1, -1, -1):
        nib = z3.Extract(4 * k + 3, 4 * k, g)
        out.append(_digit_char(SInt(z3.ZeroExt(CW + 1 - 4, nib), 0, 15, CW + 1), 16))
    return out


def render_atom(a):
    memo = EX.path_data.setdefault("atom_render", {})
    key = (a.kind, a.e.get_id())
    if key in memo:
        return list(memo[key])
    e = z3.simplify(a.e)
    if a.kind == "ipv4":
        cs = []
        for i in range(4):
            if i:
                cs.append(ord("."))
            o = z3.simplify(z3.Extract(31 - 8 * i, 24 - 8 * i, e))
            cs.extend([ord(c) for c in str(o.as_long())] if z3.is_bv_value(o) else _render_octet(o))
    elif a.kind == "ipv6":
        gs = [z3.simplify(z3.Extract(127 - 16 * i, 112 - 16 * i, e)) for i in range(8)]
        zero = [(g.as_long() == 0) if z3.is_bv_value(g) else EX.branch(g == 0) for g in gs]
        # ipaddress._compress_hextets: the first longest run of zero hextets of length > 1 becomes '::'
        best_start, best_len, cur_start, cur_len = -1, 0, -1, 0
        for i in range(8):
            if zero[i]:
                if cur_len == 0:
                    cur_start = i
                cur_len += 1
                if cur_len > best_len:
                    best_start, best_len = cur_start, cur_len
            else:
                cur_len = 0
        texts = []
        for i in range(8):
            if zero[i]:
                texts.append([ord("0")])
            elif z3.is_bv_value(gs[i]):
                texts.append([ord(c) for c in "%x" % gs[i].as_long()])
            else:
                texts.append(_render_hextet(gs[i]))
        parts = []
        if best_len > 1:
            head, tail = texts[:best_start], texts[best_start + best_len:]
            parts = head + [[]] + tail
            if best_start == 0:
                parts = [[]] + parts
            if best_start + best_len == 8:
                parts = parts + [[]]
        else:
            parts = texts
        cs = []
        for i, t in enumerate(parts):
            if i:
                cs.append(ord(":"))
            cs.extend(t)
    else:
        raise EngineError("rendering of a %s atom" % a.kind)
    memo[key] = list(cs)
    return cs


class LazyChars:
    """Sequence of characters computed on demand (used for hex digests, of which callers usually read one digit)."""
    __slots__ = ("n", "fn", "memo")

    def __init__(self, n, fn):
        self.n, self.fn, self.memo = n, fn, {}

    def __len__(self):
        return self.n

    def _get(self, i):
        v = self.memo.get(i)
        if v is None:
            v = self.memo[i] = self.fn(i)
        return v

    def __getitem__(self, i):
        if isinstance(i, slice):
            return [self._get(j) for j in range(*i.indices(self.n))]
        if i < 0:
            i += self.n
        if not 0 <= i < self.n:
            raise IndexError("string index out of range")
        return self._get(i)

    def __iter__(self):
        return iter([self._get(j) for j in range(self.n)])

    def __add__(self, o):
        return list(self) + list(o)

    def __radd__(self, o):
        return list(o) + list(self)

    def __mul__(self, k):
        return list(self) * k

    def index(self, x):
        return list(self).index(x)

    def __contains__(self, x):
        return x in list(self)


# --------------------------------------------------------------------------- SStr
_EQ_MEMO = {}


class SStr:
    """String of concrete length; elements are int (concrete char), BV8 (symbolic char) or Atom."""
    __slots__ = ("cs",)

    def __init__(self, cs):
        self.cs = cs if isinstance(cs, (list, LazyChars)) else list(cs)

    @staticmethod
    def of(s):
        if isinstance(s, SStr):
            return s
        if isinstance(s, str):
            for ch in s:
                if ord(ch) > 255:
                    raise EngineError("character outside the Latin-1 domain")
            return SStr([ord(c) for c in s])
        raise EngineError("SStr.of(%s)" % type(s).__name__)

    @staticmethod
    def mk(cs):
        """Return a real str when every element is concrete (hybrid rule)."""
        for c in cs:
            if not isinstance(c, int):
                return SStr(cs)
        return "".join(map(chr, cs))

    def has_atom(self):
        if type(self.cs) is LazyChars:
            return False
        for c in self.cs:
            if type(c) is Atom:
                return True
        return False

    def _noatom(self, what):
        if self.has_atom():
            if RENDER_ATOMS[0] and EX is not None and EX.running:
                self.render()
                return
            raise EngineError("%s on a string containing a rendered symbolic value" % what)

    def render(self):
        """Replace address atoms by their text, in place: the *shape* of the text (digits per octet / hextet, position of the
        zero-run compression) is decided by forking on the value, the digits stay symbolic.  Only when a harness has switched
        RENDER_ATOMS on (file-level obligations in which a later stage rescans the text an earlier stage wrote)."""
        out = []
        for c in self.cs:
            if type(c) is Atom:
                out.extend(render_atom(c))
            else:
                out.append(c)
        self.cs = out
        return self

    def concrete(self):
        if type(self.cs) is LazyChars:
            return False
        for c in self.cs:
            if type(c) is not int:
                return False
        return True

    def plain(self):
        return "".join(map(chr, self.cs))

    def symbols(self):
        out = []
        for c in self.cs:
            if isinstance(c, Atom):
                out.append(c.e)
            elif not isinstance(c, int):
                out.append(c)
        return out

    def __len__(self):
        self._noatom("len()")
        return len(self.cs)

    def __bool__(self):
        return len(self.cs) > 0

    def __iter__(self):
        self._noatom("iteration")
        return iter([SStr.mk([c]) for c in self.cs])

    def __getitem__(self, i):
        self._noatom("indexing")
        if isinstance(i, slice):
            i = concretize_slice(i)
            return SStr.mk(self.cs[i])
        if isinstance(i, SInt):
            i = i.concretize()
        return SStr.mk([self.cs[i]])

    def __add__(self, o):
        if not isinstance(o, (str, SStr)):
            return NotImplemented
        return SStr.mk(self.cs + SStr.of(o).cs)

    def __radd__(self, o):
        if not isinstance(o, (str, SStr)):
            return NotImplemented
        return SStr.mk(SStr.of(o).cs + self.cs)

    def __mul__(self, n):
        return SStr.mk(self.cs * n)

    def __hash__(self):
        raise EngineError("hash() of a symbolic string (un-modelled container?)")

    def __str__(self):
        raise EngineError("str() of a symbolic string reached C code")

    def __repr__(self):
        return "SStr(%s)" % "".join(chr(c) if isinstance(c, int) else ("{%r}" % c if isinstance(c, Atom) else "?") for c in self.cs)

    def __format__(self, spec):
        raise EngineError("format() of a symbolic string reached C code")

    # -- equality
    def eq_expr(self, o):
        if not isinstance(o, (str, SStr)):
            return z3.BoolVal(False)
        o = SStr.of(o)
        if len(o.cs) != len(self.cs):
            if self.has_atom() or o.has_atom():
                return self._eq_atoms(o)
            return _FALSE
        key = (tuple([c if type(c) is int else (c.get_id() if type(c) is not Atom else id(c)) for c in self.cs]),
               tuple([c if type(c) is int else (c.get_id() if type(c) is not Atom else id(c)) for c in o.cs]))
        r = _EQ_MEMO.get(key)
        if r is not None:
            return r[0]
        r = self._eq_expr(o)
        if len(_EQ_MEMO) > 400000:
            _EQ_MEMO.clear()
        _EQ_MEMO[key] = (r, self.cs, o.cs)
        return r

    def _eq_expr(self, o):
        conj = []
        for a, b in zip(self.cs, o.cs):
            ta, tb = type(a), type(b)
            if ta is int and tb is int:
                if a != b:
                    return _FALSE
            elif ta is Atom or tb is Atom:
                return self._eq_atoms(o)
            elif a is not b:
                conj.append((a == b) if ta is not int and tb is not int else (_cbv(a) == _cbv(b)))
        if not conj:
            return _TRUE
        return z3.And(*conj) if len(conj) > 1 else conj[0]

    def _eq_atoms(self, o):
        if RENDER_ATOMS[0] and EX is not None and EX.running:
            self.render()
            o.render()
            if len(self.cs) != len(o.cs):
                return _FALSE
            return self._eq_expr(o)
        if o.concrete() and not self.concrete():
            return _eq_atoms_vs_text(self, o.plain())
        if self.concrete() and not o.concrete():
            return _eq_atoms_vs_text(o, self.plain())
        if len(self.cs) != len(o.cs):
            raise EngineError("equality between differently shaped strings with rendered symbolic values")
        conj = []
        for a, b in zip(self.cs, o.cs):
            if isinstance(a, Atom) or isinstance(b, Atom):
                if not (isinstance(a, Atom) and isinstance(b, Atom) and a.kind == b.kind):
                    raise EngineError("equality between a rendered symbolic value and characters")
                if a.e.size() != b.e.size():
                    raise EngineError("atom width mismatch")
                conj.append(a.e == b.e)
            elif isinstance(a, int) and isinstance(b, int):
                if a != b:
                    return z3.BoolVal(False)
            else:
                conj.append(_cbv(a) == _cbv(b))
        return z3.And(*conj) if conj else z3.BoolVal(True)

    def __eq__(self, o):
        if not isinstance(o, (str, SStr)):
            return False
        return EX.branch(self.eq_expr(o))

    def __ne__(self, o):
        return not self.__eq__(o)

    def _cmp_unsupported(self, o):
        raise EngineError("ordering comparison of symbolic strings")
    __lt__ = __le__ = __gt__ = __ge__ = _cmp_unsupported

    # -- searching
    def __contains__(self, sub):
        self._noatom("substring test")
        if not isinstance(sub, (str, SStr)):
            raise TypeError("'in <string>' requires string as left operand")
        sub = SStr.of(sub)
        n, m = len(self.cs), len(sub.cs)
        if m == 0:
            return True
        if m > n:
            return False
        return EX.branch(z3.Or(*[SStr(self.cs[i:i + m]).eq_expr(sub) for i in range(n - m + 1)]))

    def find_first(self, sub, start=0):
        """index of first occurrence (forking), -1 if none."""
        sub = SStr.of(sub)
        n, m = len(self.cs), len(sub.cs)
        for i in range(start, n - m + 1):
            if EX.branch(SStr(self.cs[i:i + m]).eq_expr(sub)):
                return i
        return -1

    def find(self, sub, start=0):
        self._noatom("find")
        return self.find_first(sub, start)

    def startswith(self, p):
        self._noatom("startswith")
        if isinstance(p, tuple):
            return any(self.startswith(q) for q in p)
        p = SStr.of(p)
        if len(p.cs) > len(self.cs):
            return False
        return EX.branch(SStr(self.cs[:len(p.cs)]).eq_expr(p))

    def endswith(self, p):
        self._noatom("endswith")
        if isinstance(p, tuple):
            return any(self.endswith(q) for q in p)
        p = SStr.of(p)
        if len(p.cs) > len(self.cs):
            return False
        if len(p.cs) == 0:
            return True
        return EX.branch(SStr(self.cs[-len(p.cs):]).eq_expr(p))

    # -- whitespace handling (CPython's str.isspace set, tabulated from CPython)
    def _lstrip_n(self, chars=None):
        s = WS if chars is None else frozenset(ord(c) for c in chars)
        n = 0
        while n < len(self.cs) and not isinstance(self.cs[n], Atom) and char_in(self.cs[n], s):
            n += 1
        return n

    def _rstrip_n(self, chars=None):
        s = WS if chars is None else frozenset(ord(c) for c in chars)
        n = len(self.cs)
        while n > 0 and not isinstance(self.cs[n - 1], Atom) and char_in(self.cs[n - 1], s):
            n -= 1
        return n

    def lstrip(self, chars=None):
        return SStr.mk(self.cs[self._lstrip_n(chars):])

    def rstrip(self, chars=None):
        return SStr.mk(self.cs[:self._rstrip_n(chars)])

    def strip(self, chars=None):
        self._noatom("strip")
        a = self._lstrip_n(chars)
        b = self._rstrip_n(chars)
        return SStr.mk(self.cs[a:max(a, b)])

    def split(self, sep=None, maxsplit=-1):
        self._noatom("split")
        if maxsplit != -1:
            if sep is None:
                raise EngineError("split(None, maxsplit)")
            rest, out = self, []
            for _ in range(maxsplit):
                a, s_, b = SStr.of(rest).partition(sep)
                if isinstance(s_, str) and s_ == "":
                    break       # separator not found (it is never empty)
                out.append(a)
                rest = b
            out.append(rest)
            return out
        out, cur = [], []
        if sep is None:
            for c in self.cs:
                if char_in(c, WS):
                    if cur:
                        out.append(SStr.mk(cur))
                        cur = []
                else:
                    cur.append(c)
            if cur:
                out.append(SStr.mk(cur))
            return out
        sep = SStr.of(sep)
        if not sep.cs:
            raise ValueError("empty separator")
        sep._noatom("split separator")
        m = len(sep.cs)
        i, start = 0, 0
        while i + m <= len(self.cs):
            if EX.branch(SStr(self.cs[i:i + m]).eq_expr(sep)):
                out.append(SStr.mk(self.cs[start:i]))
                i += m
                start = i
            else:
                i += 1
        out.append(SStr.mk(self.cs[start:]))
        return out

    def partition(self, sep):
        self._noatom("partition")
        sep_s = SStr.of(sep)
        if not sep_s.cs:
            raise ValueError("empty separator")
        sep_s._noatom("partition separator")
        i = self.find_first(sep_s, 0)
        if i == -1:
            return self, "", ""
        return SStr.mk(self.cs[:i]), sep, SStr.mk(self.cs[i + len(sep_s.cs):])

    def rpartition(self, sep):
        self._noatom("rpartition")
        sep_s = SStr.of(sep)
        if not sep_s.cs:
            raise ValueError("empty separator")
        sep_s._noatom("rpartition separator")
        i = self.rfind(sep_s)
        if i == -1:
            return "", "", self
        return SStr.mk(self.cs[:i]), sep, SStr.mk(self.cs[i + len(sep_s.cs):])

    def rsplit(self, sep=None, maxsplit=-1):
        if maxsplit == -1:
            return self.split(sep)
        self._noatom("rsplit")
        if sep is None:
            raise EngineError("rsplit(None, maxsplit)")
        sep_s = SStr.of(sep)
        if len(sep_s.cs) != 1 or not isinstance(sep_s.cs[0], int):
            raise EngineError("rsplit on a multi-character or symbolic separator")
        out, end, n = [], len(self.cs), 0
        for i in range(len(self.cs) - 1, -1, -1):
            if n >= maxsplit:
                break
            if char_in(self.cs[i], {sep_s.cs[0]}):
                out.append(SStr.mk(self.cs[i + 1:end]))
                end = i
                n += 1
        out.append(SStr.mk(self.cs[:end]))
        return out[::-1]

    def splitlines(self, keepends=False):
        self._noatom("splitlines")
        brk = frozenset((10, 11, 12, 13, 28, 29, 30, 133))
        out, cur, i = [], [], 0
        cs = self.cs
        while i < len(cs):
            c = cs[i]
            if char_in(c, brk):
                k = 1
                if char_in(c, {13}) and i + 1 < len(cs) and char_in(cs[i + 1], {10}):
                    k = 2
                out.append(SStr.mk(cur + (list(cs[i:i + k]) if keepends else [])))
                cur = []
                i += k
            else:
                cur.append(c)
                i += 1
        if cur:
            out.append(SStr.mk(cur))
        return out

    def rfind(self, sub, start=0):
        self._noatom("rfind")
        sub_s = SStr.of(sub)
        n = len(sub_s.cs)
        for i in range(len(self.cs) - n, start - 1, -1):
            if EX.branch(SStr(self.cs[i:i + n]).eq_expr(sub_s)):
                return i
        return -1

    def index(self, sub, start=0):
        r = self.find(sub, start)
        if r == -1:
            raise ValueError("substring not found")
        return r

    def rindex(self, sub, start=0):
        r = self.rfind(sub, start)
        if r == -1:
            raise ValueError("substring not found")
        return r

    def count(self, sub):
        self._noatom("count")
        sub_s = SStr.of(sub)
        n = len(sub_s.cs)
        if n == 0:
            return len(self.cs) + 1
        i, k = 0, 0
        while i + n <= len(self.cs):
            if EX.branch(SStr(self.cs[i:i + n]).eq_expr(sub_s)):
                k += 1
                i += n
            else:
                i += 1
        return k

    def replace(self, old, new, count=-1):
        self._noatom("replace")
        old_s, new_s = SStr.of(old), SStr.of(new)
        n = len(old_s.cs)
        if n == 0:
            raise EngineError("str.replace of the empty string")
        out, i, k = [], 0, 0
        while i < len(self.cs):
            if (count < 0 or k < count) and i + n <= len(self.cs) and EX.branch(SStr(self.cs[i:i + n]).eq_expr(old_s)):
                out.extend(new_s.cs)
                i += n
                k += 1
            else:
                out.append(self.cs[i])
                i += 1
        return SStr.mk(out)

    def removeprefix(self, p):
        return SStr.mk(self.cs[len(SStr.of(p).cs):]) if (len(SStr.of(p).cs) and self.startswith(p)) else self

    def removesuffix(self, p):
        n = len(SStr.of(p).cs)
        return SStr.mk(self.cs[:len(self.cs) - n]) if (n and self.endswith(p)) else self

    def _pad(self, width, fill):
        if isinstance(width, SInt):
            raise EngineError("padding to a symbolic width")
        f = SStr.of(fill)
        if len(f.cs) != 1:
            raise TypeError("The fill character must be exactly one character long")
        return [f.cs[0]] * max(0, width - len(self.cs))

    def rjust(self, width, fill=" "):
        self._noatom("rjust")
        return SStr.mk(self._pad(width, fill) + list(self.cs))

    def ljust(self, width, fill=" "):
        self._noatom("ljust")
        return SStr.mk(list(self.cs) + self._pad(width, fill))

    def zfill(self, width):
        self._noatom("zfill")
        pad = self._pad(width, "0")
        if pad and self.cs and char_in(self.cs[0], {43, 45}):
            return SStr.mk([self.cs[0]] + pad + list(self.cs[1:]))
        return SStr.mk(pad + list(self.cs))

    # -- classification / case
    def _all_in(self, s):
        self._noatom("classification")
        if not self.cs:
            return False
        for c in self.cs:
            if isinstance(c, int) and c not in s:
                return False
        syms = [c for c in self.cs if not isinstance(c, int)]
        if not syms:
            return True
        return EX.branch(z3.And(*[in_set_expr(c, s) for c in syms]))

    def isdigit(self):
        return self._all_in(frozenset(c for c in range(256) if chr(c).isdigit()))

    def isdecimal(self):
        return self._all_in(frozenset(c for c in range(256) if chr(c).isdecimal()))

    def isspace(self):
        return self._all_in(WS)

    def isalpha(self):
        return self._all_in(frozenset(c for c in range(256) if chr(c).isalpha()))

    def isalnum(self):
        return self._all_in(frozenset(c for c in range(256) if chr(c).isalnum()))

    def isascii(self):
        self._noatom("isascii")
        if not self.cs:
            return True
        for c in self.cs:
            if isinstance(c, int) and c > 127:
                return False
        syms = [c for c in self.cs if not isinstance(c, int)]
        if not syms:
            return True
        return EX.branch(z3.And(*[z3.ULE(c, 127) for c in syms]))

    def _casemap(self, table):
        self._noatom("case mapping")
        out = []
        for c in self.cs:
            if isinstance(c, int):
                if c not in table:
                    raise EngineError("case mapping leaves the Latin-1 domain")
                out.append(table[c])
            else:
                moved = {k: v for k, v in table.items() if k != v}
                missing = [k for k in range(256) if k not in table]
                if missing:
                    # characters whose case mapping leaves the domain (e.g. U+00B5, U+00FF upper): fork them out
                    if char_in(c, frozenset(missing)):
                        raise EngineError("case mapping leaves the Latin-1 domain")
                e = c
                # contiguous shifts: group by delta
                by_delta = {}
                for k, v in moved.items():
                    by_delta.setdefault(v - k, set()).add(k)
                for d, ks in by_delta.items():
                    e = z3.If(in_set_expr(c, ks), c + z3.BitVecVal(d % 256, CW), e)
                out.append(e)
        return SStr.mk(out)

    def lower(self):
        return self._casemap(LOWER)

    def upper(self):
        return self._casemap(UPPER)

    def encode(self, encoding="utf-8", errors="strict"):
        # bytes are represented by the same proxy; code points > 127 would be multi-byte in UTF-8, which only
        # matters to consumers that look at the bytes (hash stubs treat the value as an opaque key).
        return SBytes(self.cs)

    def join(self, items):
        out = []
        for n, it in enumerate(items):
            if n:
                out.extend(self.cs)
            out.extend(SStr.of(it).cs)
        return SStr.mk(out)

    def format(self, *a, **k):
        raise EngineError("format with a symbolic template")


_ATOM_CHARS = {"ipv4": "0123456789.", "ipv6": "0123456789abcdef:", "dec": "0123456789"}


def _eq_atoms_vs_text(s, text):
    """equality of a string containing rendered symbolic values with concrete text: the text must consist of the same
    literal pieces with, at each rendered value, the canonical rendering of some value v (then value == v is required)"""
    import ipaddress
    conj = []
    pos = 0
    cs = s.cs
    i = 0
    n = len(cs)
    while i < n:
        c = cs[i]
        if isinstance(c, Atom):
            if c.kind not in _ATOM_CHARS:
                raise EngineError("equality with an opaque rendered value")
            allowed = _ATOM_CHARS[c.kind]
            j = pos
            while j < len(text) and text[j] in allowed:
                j += 1
            nxt = cs[i + 1] if i + 1 < n else None
            if nxt is not None and not isinstance(nxt, (int, Atom)) and EX is not None and EX.running and \
                    not EX.is_sat(in_set_expr(nxt, frozenset(ord(ch) for ch in allowed))):
                nxt = None      # the following symbolic character provably cannot continue the rendering on this path
            if isinstance(nxt, Atom) or (isinstance(nxt, int) and chr(nxt) in allowed) or (nxt is not None and not isinstance(nxt, int)):
                raise EngineError("ambiguous alignment of a rendered symbolic value with concrete text: %r vs %r" % (s, text))
            piece = text[pos:j]
            try:
                if c.kind == "ipv4":
                    v = ipaddress.IPv4Address(piece)
                    ok = str(v) == piece
                    v = int(v)
                elif c.kind == "ipv6":
                    v = ipaddress.IPv6Address(piece)
                    ok = str(v) == piece
                    v = int(v)
                else:
                    v = int(piece)
                    ok = str(v) == piece
            except ValueError:
                return _FALSE
            if not ok:
                return _FALSE
            conj.append(c.e == z3.BitVecVal(v, c.e.size()))
            pos = j
        else:
            if pos >= len(text):
                return _FALSE
            if isinstance(c, int):
                if ord(text[pos]) != c:
                    return _FALSE
            else:
                conj.append(c == _BVCONST[ord(text[pos])] if ord(text[pos]) < 256 else _FALSE)
            pos += 1
        i += 1
    if pos != len(text):
        return _FALSE
    return z3.And(*conj) if conj else _TRUE


def concretize_slice(sl):
    """slice bounds that are symbolic integers are forked over their feasible values (small ranges only)"""
    if isinstance(sl.start, SInt) or isinstance(sl.stop, SInt) or isinstance(sl.step, SInt):
        return slice(*[b.concretize() if isinstance(b, SInt) else b for b in (sl.start, sl.stop, sl.step)])
    return sl


class SBytes(SStr):
    """Result of SStr.encode(): only ever consumed by hash stubs and decode()."""
    __slots__ = ()

    def decode(self, *a):
        return SStr.mk(self.cs)


# --------------------------------------------------------------------------- SInt
def _fit(lo, hi):
    """smallest signed width holding [lo, hi]"""
    w = 1
    while not (-(1 << (w - 1)) <= lo and hi <= (1 << (w - 1)) - 1):
        w += 1
    return w


class SInt:
    """Mathematical integer held as a signed bit-vector wide enough for its tracked interval [lo, hi]."""
    __slots__ = ("e", "w", "lo", "hi")

    def __init__(self, e, lo, hi, w=None):
        self.e, self.lo, self.hi = e, lo, hi
        self.w = e.size() if w is None else w

    @staticmethod
    def unsigned(bv):
        """SInt from an unsigned bit-vector term."""
        n = bv.size()
        return SInt(z3.ZeroExt(1, bv), 0, (1 << n) - 1, n + 1)

    @staticmethod
    def mk(e, lo, hi):
        e = z3.simplify(e)
        if z3.is_bv_value(e):
            return e.as_signed_long()
        if lo == hi:
            return lo
        w = _fit(lo, hi)
        if w < e.size():
            e = z3.Extract(w - 1, 0, e)
        elif w > e.size():
            e = z3.SignExt(w - e.size(), e)
        return SInt(e, lo, hi, w)

    def ext(self, w):
        if w == self.w:
            return self.e
        if w < self.w:
            raise EngineError("narrowing")
        return z3.SignExt(w - self.w, self.e)

    def ubv(self, n):
        """the value as an n-bit unsigned vector (caller guarantees 0 <= value < 2**n)"""
        if self.lo < 0 or self.hi >= (1 << n):
            # the tracked interval does not show it: ask whether the path condition does (validity query, not a fork)
            out = z3.Or(self._cmp_expr(0, "lt"), self._cmp_expr((1 << n) - 1, "gt"))
            if EX is None or EX.is_sat(out):
                raise EngineError("value does not fit %d unsigned bits" % n)
        if self.w >= n:
            return z3.Extract(n - 1, 0, self.e)
        return z3.SignExt(n - self.w, self.e)

    def concretize(self):
        """fork over every feasible value (used for indices; small ranges only)"""
        if self.hi - self.lo > 4096:
            raise EngineError("concretizing a wide symbolic integer")
        v = EX.fork_values(self.e, [z3.BitVecVal(x, self.w) for x in range(self.lo, self.hi + 1)])
        return v.as_signed_long()

    def __repr__(self):
        return "SInt(%s in [%d,%d])" % (z3.simplify(self.e), self.lo, self.hi)

    def __hash__(self):
        raise EngineError("hash() of a symbolic integer")

    def __index__(self):
        raise EngineError("symbolic integer used as a C-level index")

    def __int__(self):
        raise EngineError("int() of symbolic integer reached C code")

    def __format__(self, spec):
        raise EngineError("format() of a symbolic integer reached C code")

    def __str__(self):
        raise EngineError("str() of a symbolic integer reached C code")

    def __bool__(self):
        return EX.branch(self.e != 0)

    @staticmethod
    def _coerce(o):
        if isinstance(o, SInt):
            return o
        if isinstance(o, bool):
            o = int(o)
        if isinstance(o, int):
            w = _fit(o, o)
            return SInt(z3.BitVecVal(o, w), o, o, w)
        return None

    def _arith(self, o, op):
        o = SInt._coerce(o)
        if o is None:
            return NotImplemented
        a, b = self, o
        if op == "add":
            lo, hi = a.lo + b.lo, a.hi + b.hi
        elif op == "sub":
            lo, hi = a.lo - b.hi, a.hi - b.lo
        else:
            ps = [a.lo * b.lo, a.lo * b.hi, a.hi * b.lo, a.hi * b.hi]
            lo, hi = min(ps), max(ps)
        w = max(_fit(lo, hi), a.w, b.w)
        x, y = a.ext(w), b.ext(w)
        e = x + y if op == "add" else x - y if op == "sub" else x * y
        return SInt.mk(e, lo, hi)

    def __add__(self, o): return self._arith(o, "add")
    def __radd__(self, o): return self._arith(o, "add")
    def __sub__(self, o): return self._arith(o, "sub")
    def __mul__(self, o): return self._arith(o, "mul")
    def __rmul__(self, o): return self._arith(o, "mul")

    def __rsub__(self, o):
        o = SInt._coerce(o)
        return NotImplemented if o is None else o._arith(self, "sub")

    def __neg__(self):
        return SInt._coerce(0)._arith(self, "sub")

    def _divmod(self, o, want):
        if isinstance(o, SInt):
            raise EngineError("division by a symbolic integer")
        if not isinstance(o, int):
            return NotImplemented
        if o <= 0:
            raise EngineError("division by a non-positive constant")
        if want == "mod" and z3.is_const(self.e) and self.e.decl().kind() == z3.Z3_OP_UNINTERPRETED and str(self.e).startswith("env_") \
                and self.hi - self.lo >= (1 << 32):
            # residue of an unconstrained environment integer (e.g. a string hash): itself an arbitrary value of 0..o-1.
            # (over-approximation: its relation to other uses of the same integer is dropped)
            wr = _fit(0, o - 1)
            r = z3.BitVec("env_mod[%s,%d]" % (self.e, o), wr)
            if EX is not None and EX.running:
                EX.assume(z3.And(r >= 0, r <= o - 1))
            return SInt(r, 0, o - 1, wr)
        w = max(self.w, _fit(o, o)) + 1
        x = self.ext(w)
        c = z3.BitVecVal(o, w)
        if self.lo >= 0:
            q, r = z3.UDiv(x, c), z3.URem(x, c)
        else:
            r = x % c                  # bvsmod: sign follows the (positive) divisor, i.e. Python's %
            q = (x - r) / c            # exact signed division
        if want == "mod":
            lo, hi = (0, min(o - 1, self.hi)) if self.lo >= 0 else (0, o - 1)
            return SInt.mk(r, lo, hi)
        return SInt.mk(q, self.lo // o, self.hi // o)

    def __abs__(self):
        if self.lo >= 0:
            return self
        if self.hi < 0 or EX.branch(self._cmp_expr(0, "lt")):
            return -self
        return SInt(self.e, 0, self.hi, self.w) if self.hi >= 0 else self

    def __round__(self, nd=None):
        return self

    def __pos__(self):
        return self

    def __divmod__(self, o):
        return self._divmod(o, "div"), self._divmod(o, "mod")

    def __rdivmod__(self, o): raise EngineError("divmod by a symbolic integer")

    def __floordiv__(self, o): return self._divmod(o, "div")
    def __mod__(self, o): return self._divmod(o, "mod")

    def __rfloordiv__(self, o): raise EngineError("division by a symbolic integer")
    def __rmod__(self, o): raise EngineError("modulo by a symbolic integer")
    def __truediv__(self, o):
        # int / power of two: a C double.  Kept as (numerator, exponent); int() of it applies IEEE-754 rounding faithfully.
        if isinstance(o, int) and not isinstance(o, bool) and o > 0 and (o & (o - 1)) == 0:
            num = self
            if num.lo < 0:
                if EX.is_sat(num._cmp_expr(0, "lt")):
                    raise EngineError("float division of a possibly negative integer")
                num = SInt(num.e, 0, num.hi, num.w)     # proved non-negative on this path
            return SFloat(num, o.bit_length() - 1)
        raise EngineError("float division")
    def __pow__(self, o, mod=None):
        if mod is not None or isinstance(o, SInt) or not isinstance(o, int) or o < 0 or o > 8:
            raise EngineError("pow")
        r = 1
        for _ in range(o):
            r = self * r
        return r

    def _bit(self, o, op):
        o = SInt._coerce(o)
        if o is None:
            return NotImplemented
        if self.lo < 0 or o.lo < 0:
            # Python's infinite two's complement: both operands sign-extended to a common signed width give the exact result
            w = max(self.w, o.w)
            x, y = self.ext(w), o.ext(w)
            e = (x & y) if op == "and" else (x | y) if op == "or" else (x ^ y)
            lo, hi = -(1 << (w - 1)), (1 << (w - 1)) - 1
            if op == "and" and (self.lo >= 0 or o.lo >= 0):
                lo, hi = 0, (self.hi if self.lo >= 0 else o.hi) if not (self.lo >= 0 and o.lo >= 0) else min(self.hi, o.hi)
            return SInt.mk(e, lo, hi)
        w = max(self.w, o.w)
        x, y = self.ext(w), o.ext(w)
        if op == "and":
            return SInt.mk(x & y, 0, min(self.hi, o.hi))
        top = (1 << max(self.hi.bit_length(), o.hi.bit_length())) - 1
        return SInt.mk(x | y if op == "or" else x ^ y, 0, top)

    def __and__(self, o): return self._bit(o, "and")
    __rand__ = __and__
    def __or__(self, o): return self._bit(o, "or")
    __ror__ = __or__
    def __xor__(self, o): return self._bit(o, "xor")
    __rxor__ = __xor__

    def __rshift__(self, n):
        if isinstance(n, SInt):
            raise EngineError("symbolic shift")
        if self.lo < 0:
            # arithmetic shift = floor division by 2**n, as in Python
            return SInt.mk((self.e >> z3.BitVecVal(min(n, self.w - 1), self.w)), self.lo >> n, self.hi >> n)
        return SInt.mk(z3.LShR(self.e, z3.BitVecVal(n, self.w)) if n < self.w else z3.BitVecVal(0, self.w), self.lo >> n, self.hi >> n)

    def __lshift__(self, n):
        if isinstance(n, SInt):
            raise EngineError("symbolic shift")
        w = self.w + n
        return SInt.mk(z3.SignExt(n, self.e) << z3.BitVecVal(n, w), self.lo << n, self.hi << n)

    def __rlshift__(self, o): raise EngineError("shift by a symbolic amount")
    def __rrshift__(self, o): raise EngineError("shift by a symbolic amount")
    def __invert__(self):
        return -self - 1

    def _cmp_expr(self, o, op):
        o = SInt._coerce(o)
        if o is None:
            return None
        w = max(self.w, o.w)
        x, y = self.ext(w), o.ext(w)
        return {"lt": x < y, "le": x <= y, "gt": x > y, "ge": x >= y, "eq": x == y, "ne": x != y}[op]

    def _cmp(self, o, op):
        if isinstance(o, int) and not isinstance(o, bool):
            # interval shortcut (no solver call)
            if o < self.lo:
                return op in ("gt", "ge", "ne")
            if o > self.hi:
                return op in ("lt", "le", "ne")
        e = self._cmp_expr(o, op)
        if e is None:
            if op == "eq":
                return False
            if op == "ne":
                return True
            return NotImplemented
        return EX.branch(e)

    def __lt__(self, o): return self._cmp(o, "lt")
    def __le__(self, o): return self._cmp(o, "le")
    def __gt__(self, o): return self._cmp(o, "gt")
    def __ge__(self, o): return self._cmp(o, "ge")
    def __eq__(self, o): return self._cmp(o, "eq")
    def __ne__(self, o): return self._cmp(o, "ne")

    def to_bytes(self, length, byteorder="big", signed=False):
        raise EngineError("to_bytes of a symbolic integer")

    def bit_length(self):
        """number of bits of |x|: forked from the top (at most hi.bit_length() forks)"""
        v = abs(self)
        if isinstance(v, int):
            return v.bit_length()
        for n in range(max(v.hi, 0).bit_length(), 0, -1):
            if EX.branch(v._cmp_expr(1 << (n - 1), "ge")):
                return n
        return 0


class SFloat:
    """The C double nearest (round-half-even) to a non-negative symbolic integer, divided by 2**k (exact in binary floating
    point).  Only int() is supported: truncation of that double."""
    __slots__ = ("num", "k")

    def __init__(self, num, k):
        self.num, self.k = num, k

    def to_int(self):
        n, k = self.num, self.k
        if n.hi >= (1 << 1000):
            raise EngineError("float overflow range")
        maxbits = n.hi.bit_length()
        W = maxbits + 2
        bv = n.ubv(W)
        if maxbits <= 53:
            return SInt.mk(z3.LShR(bv, z3.BitVecVal(k, W)) if k < W else z3.BitVecVal(0, W), n.lo >> k, n.hi >> k)
        # case split on the bit length L of the numerator (the conversion int -> double rounds to 53 significant bits)
        L = None
        for cand in range(maxbits, 53, -1):
            if EX.branch(z3.UGE(bv, z3.BitVecVal(1 << (cand - 1), W))):
                L = cand
                break
        if L is None:
            return SInt.mk(z3.LShR(bv, z3.BitVecVal(k, W)), 0, min(n.hi, (1 << 53) - 1) >> k)
        sh = L - 53
        q = z3.LShR(bv, z3.BitVecVal(sh, W))
        rem = bv & z3.BitVecVal((1 << sh) - 1, W)
        half = z3.BitVecVal(1 << (sh - 1), W)
        up = z3.Or(z3.UGT(rem, half), z3.And(rem == half, z3.Extract(0, 0, q) == 1))
        q2 = z3.If(up, q + 1, q)
        rounded = q2 << z3.BitVecVal(sh, W)          # may be 2**L exactly: still fits W bits
        val = z3.LShR(rounded, z3.BitVecVal(k, W)) if k < W else z3.BitVecVal(0, W)
        return SInt.mk(val, 0, (1 << (L + 1)) >> k)

    def __repr__(self):
        return "SFloat(%r / 2**%d)" % (self.num, self.k)


# --------------------------------------------------------------------------- conversions
def bits_of(x, width):
    """'{:0<width>b}'.format(x) for a symbolic 0 <= x < 2**width (else EngineError)."""
    if x.lo < 0:
        raise EngineError("binary rendering of a possibly negative integer")
    if x.hi >= (1 << width):
        # the value may need more than `width` digits (format pads, it never truncates): fork on the actual length
        for total in range(x.hi.bit_length(), width, -1):
            if EX.branch(x._cmp_expr(1 << (total - 1), "ge")):
                width = total
                x = SInt(x.e, 1 << (total - 1), min(x.hi, (1 << total) - 1), x.w)
                break
        else:
            x = SInt(x.e, x.lo, (1 << width) - 1, x.w)
    bv = x.ubv(width)
    cs = []
    for i in range(width - 1, -1, -1):
        cs.append(_digit_char(SInt.mk(z3.ZeroExt(1, z3.Extract(i, i, bv)), 0, 1), 2))
    return SStr.mk(cs)


def hex_char_of_nibble(nib):
    """4-bit vector -> BV8 lower-case hex digit"""
    v = SInt.mk(z3.ZeroExt(1, nib), 0, 15)
    if isinstance(v, int):
        return ord("0123456789abcdef"[v])
    return _digit_char(v, 16)


def hex_of(x, mindigits=1):
    """'%x' % x for symbolic non-negative x: forks on the number of digits."""
    if x.lo < 0:
        raise EngineError("hex of a possibly negative integer")
    maxd = max(1, (x.hi.bit_length() + 3) // 4)
    bv = x.ubv(4 * maxd)
    # number of significant hex digits
    for nd in range(maxd, 0, -1):
        if nd == 1:
            break
        top = z3.Extract(4 * nd - 1, 4 * nd - 4, bv)
        if EX.branch(top != 0):
            break
    nd = max(nd, mindigits)
    cs = []
    full = x.ubv(4 * max(maxd, nd))
    for i in range(nd - 1, -1, -1):
        cs.append(hex_char_of_nibble(z3.Extract(4 * i + 3, 4 * i, full)))
    return SStr.mk(cs)


def sym_chr(x):
    if isinstance(x, SInt):
        if x.lo < 0 or x.hi > 255:
            if EX.branch(z3.Or(x._cmp_expr(0, "lt"), x._cmp_expr(255, "gt"))):
                raise EngineError("chr() outside the Latin-1 domain")
        return SStr([z3.Extract(CW - 1, 0, x.ext(max(x.w, CW)))])
    return chr(x)


def sym_ord(x):
    if isinstance(x, SStr):
        x._noatom("ord")
        if len(x.cs) != 1:
            raise TypeError("ord() expected a character, but string of length %d found" % len(x.cs))
        c = x.cs[0]
        if isinstance(c, int):
            return c
        return SInt(z3.ZeroExt(1, c), 0, 255, CW + 1)
    return ord(x)


def _digit_val(c, base):
    """(valid_expr, value BV of width 8) for a symbolic char as a digit in base"""
    table = {}
    for k in range(256):
        try:
            table[k] = int(chr(k), base)
        except ValueError:
            pass
    valid = in_set_expr(c, set(table))
    e = z3.BitVecVal(0, CW)
    by_delta = {}
    for k, v in table.items():
        by_delta.setdefault(k - v, set()).add(k)
    for d, ks in by_delta.items():
        e = z3.If(in_set_expr(c, ks), c - z3.BitVecVal(d, CW), e)
    return valid, e


def _digits_value(vals, b):
    """value of a digit sequence (ints / SInt / raw CW-bit digit values) in base b as SInt or int"""
    n = len(vals)
    if all(isinstance(v, int) for v in vals):
        r = 0
        for v in vals:
            r = r * b + v
        return r
    if n == 1 and isinstance(vals[0], SInt):
        return vals[0]
    vals = [v.ubv(CW) if isinstance(v, SInt) else v for v in vals]
    if b == 2:
        parts = [z3.BitVecVal(v, 1) if isinstance(v, int) else z3.Extract(0, 0, v) for v in vals]
        bv = z3.Concat(*parts) if n > 1 else parts[0]
        return SInt.mk(z3.ZeroExt(1, bv), 0, (1 << n) - 1)
    if b == 16:
        parts = [z3.BitVecVal(v, 4) if isinstance(v, int) else z3.Extract(3, 0, v) for v in vals]
        bv = z3.Concat(*parts) if n > 1 else parts[0]
        return SInt.mk(z3.ZeroExt(1, bv), 0, (1 << (4 * n)) - 1)
    hi = 10 ** n - 1
    w = max(_fit(0, hi), CW + 1)
    acc = z3.BitVecVal(0, w)
    for v in vals:
        d = z3.BitVecVal(v, w) if isinstance(v, int) else z3.ZeroExt(w - CW, v)
        acc = acc * 10 + d
    return SInt.mk(acc, 0, hi)


_INT_TOL = {}


def _int_tolerated(b):
    """non-digit characters (< 256) that can occur somewhere in a literal the real int(..., b) accepts"""
    if b not in _INT_TOL:
        out = set()
        for c in range(256):
            ch = chr(c)
            try:
                int(ch, b)
                continue
            except ValueError:
                pass
            for lit in ("1" + ch, ch + "1", "1" + ch + "1", "0" + ch + "1"):
                try:
                    int(lit, b)
                    out.add(c)
                    break
                except ValueError:
                    pass
        _INT_TOL[b] = frozenset(out)
    return _INT_TOL[b]


def sym_int(x=0, base=None):
    if isinstance(x, SInt):
        return x
    if isinstance(x, SFloat) and base is None:
        return x.to_int()
    if isinstance(x, SStr):
        x._noatom("int()")
        if x.concrete():
            return int(x.plain()) if base is None else int(x.plain(), base)
        b = 10 if base is None else base
        if b not in (2, 10, 16):
            raise EngineError("int(str, base=%r)" % base)
        cs = list(x.cs)
        # CPython accepts surrounding whitespace, a sign, single underscores between digits and (bases 2, 16) a prefix.
        # Characters are classified digit / other-character-that-can-occur-in-a-valid-literal (forked to its concrete
        # value) / invalid; with the non-digits concrete, validity depends on the positions only and is decided by the
        # real int() on a skeleton; prefixes (0x, 0b) are refused as un-modelled.
        if not cs:
            raise ValueError("invalid literal for int() with base %d: ''" % b)  # passthrough
        tolerated = _int_tolerated(b)
        kinds = []
        for c in cs:
            if isinstance(c, int):
                try:
                    kinds.append(("d", int(chr(c), b)))
                except ValueError:
                    if c in tolerated:
                        kinds.append(("c", c))
                    else:
                        raise ValueError("invalid literal for int() with base %d" % b)  # passthrough
            elif c.get_id() in CHAR_DIGIT and CHAR_DIGIT[c.get_id()][1].hi < b:
                kinds.append(("d", CHAR_DIGIT[c.get_id()][1]))
            else:
                valid, v = _digit_val(c, b)
                if not EX.branch(valid):
                    if EX.branch(in_set_expr(c, tolerated)):
                        kinds.append(("c", EX.fork_values(c, sorted(tolerated))))
                    else:
                        raise ValueError("invalid literal for int() with base %d" % b)  # passthrough
                else:
                    kinds.append(("d", v))
        negative = False
        if any(k == "c" for k, _ in kinds):
            if any(k == "c" and chr(v) in "xXbBoO" for k, v in kinds):
                raise EngineError("int() literal with a base prefix")
            skeleton = "".join("1" if k == "d" else chr(v) for k, v in kinds)
            int(skeleton, b)  # passthrough (ValueError of the real int() on the literal's shape)
            negative = skeleton.strip().startswith("-")
        vals = [v for k, v in kinds if k == "d"]
        r = _digits_value(vals, b)
        return -r if negative else r
    if hasattr(x, "_ip") and isinstance(getattr(x, "_ip"), SInt) and base is None:
        return x._ip  # ipaddress objects: __int__ returns self._ip
    if base is None:
        return int(x)  # passthrough
    return int(x, base)  # passthrough


def sym_str(x=""):
    if isinstance(x, SStr):
        return x
    if isinstance(x, SInt):
        if 0 <= x.lo and x.hi <= 9:
            return SStr.mk([_digit_char(x, 10)])
        if x.lo >= 0 and x.hi < 256 and not EX.is_sat(x._cmp_expr(9, "gt")):
            # provably a single digit on this path (validity query, not a fork)
            return SStr.mk([_digit_char(SInt(x.e, 0, 9, x.w), 10)])
        return SStr([Atom("dec", x.e)])
    ip = getattr(x, "_ip", None)
    if isinstance(ip, SInt):
        v = getattr(x, "_version", None)
        if v == 4:
            return SStr([Atom("ipv4", ip.ubv(32))])
        if v == 6:
            if getattr(x, "_scope_id", None):
                raise EngineError("rendering of a scoped IPv6 address")
            return SStr([Atom("ipv6", ip.ubv(128))])
    return str(x)


def has_proxy(x):
    return isinstance(x, (SStr, SInt))
