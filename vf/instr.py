"""AST-instrumenting loader: executes /repo's netconan.* sources (and the pure-Python stdlib ipaddress) with a
semantics-preserving rewrite so that the real functions can run on symbolic proxies.

Loaded module families are kept *out of* sys.modules afterwards, so an instrumented family and a plain
(un-instrumented) family of the same sources can coexist in one process: the plain one is what the concolic
cross-check of every explored path runs.
"""
import ast
import hashlib
import importlib.abc
import importlib.util
import os
import sys
import sysconfig

from . import shims, models, symre
from .core import EngineError

PKG = "netconan"
STDLIB_IPADDRESS = os.path.join(sysconfig.get_paths()["stdlib"], "ipaddress.py")

# modules whose import is replaced by an environment stub / model: name -> factory
def _env_table():
    import passlib.hash as ph
    return {
        "re": symre.RE,
        "logging": models.LoggingStub(),
        "random": models.RandomStub(),
        "hashlib.md5": models.Md5Stub,
        "bidict.bidict": models.SymBidict,
        "binascii.b2a_hex": models.b2a_hex_stub,
        "passlib.hash.cisco_type7": models.ConcreteOnly(ph.cisco_type7, "cisco_type7"),
        "passlib.hash.md5_crypt": models.ConcreteOnly(ph.md5_crypt, "md5_crypt"),
        "passlib.hash.sha512_crypt": models.Sha512CryptStub(ph.sha512_crypt),
    }


# imports executed as they are (pure helpers / not reached symbolically)
PASS_IMPORTS = {"__future__", "abc", "enum", "typing", "errno", "os", "string", "sys", "argparse", "configargparse",
                "functools", "ipaddress", "collections", "itertools",
                # pure algorithms that touch their arguments only through rich comparisons / dunder methods (proxies fork there)
                "bisect", "heapq", "operator"}

ENV_TABLE = None


def _sx_env(name):
    global ENV_TABLE
    if ENV_TABLE is None:
        ENV_TABLE = _env_table()
    return ENV_TABLE[name]


class Rewriter(ast.NodeTransformer):
    def __init__(self, modname):
        self.modname = modname

    # --- imports
    def visit_Import(self, node):
        out = []
        for al in node.names:
            top = al.name
            if top in ("re", "logging", "random"):
                out.append(ast.Assign(targets=[ast.Name(al.asname or al.name, ast.Store())],
                                      value=ast.Call(ast.Name("_sx_env", ast.Load()), [ast.Constant(top)], [])))
            elif top.split(".")[0] in PASS_IMPORTS or top.split(".")[0] == PKG:
                out.append(ast.Import(names=[al]))
            else:
                raise EngineError("module %s imports %r, which the engine has no model for" % (self.modname, top))
        return [ast.copy_location(n, node) for n in out]

    def visit_ImportFrom(self, node):
        if node.level > 0 or (node.module or "").split(".")[0] == PKG:
            return node
        mod = node.module
        out = []
        for al in node.names:
            full = "%s.%s" % (mod, al.name)
            if full in ("hashlib.md5", "bidict.bidict", "binascii.b2a_hex", "passlib.hash.cisco_type7",
                        "passlib.hash.md5_crypt", "passlib.hash.sha512_crypt"):
                out.append(ast.Assign(targets=[ast.Name(al.asname or al.name, ast.Store())],
                                      value=ast.Call(ast.Name("_sx_env", ast.Load()), [ast.Constant(full)], [])))
            elif mod.split(".")[0] in PASS_IMPORTS:
                out.append(ast.ImportFrom(module=mod, names=[al], level=0))
            else:
                raise EngineError("module %s imports %r, which the engine has no model for" % (self.modname, full))
        return [ast.copy_location(n, node) for n in out]

    # --- expressions
    def visit_Call(self, node):
        self.generic_visit(node)
        f = node.func
        if isinstance(f, ast.Attribute):
            if isinstance(f.value, ast.Call) and isinstance(f.value.func, ast.Name) and f.value.func.id == "super":
                return node
            return ast.copy_location(ast.Call(
                func=ast.Name("_sx_call", ast.Load()),
                args=[f.value, ast.Constant(f.attr)] + node.args, keywords=node.keywords), node)
        return node

    def visit_Compare(self, node):
        self.generic_visit(node)
        if any(isinstance(op, (ast.In, ast.NotIn)) for op in node.ops):
            if len(node.ops) != 1:
                raise EngineError("chained comparison with 'in' in %s" % self.modname)
            c = ast.Call(func=ast.Name("_sx_in", ast.Load()), args=[node.left, node.comparators[0]], keywords=[])
            if isinstance(node.ops[0], ast.NotIn):
                c = ast.UnaryOp(ast.Not(), c)
            return ast.copy_location(c, node)
        return node

    def visit_Subscript(self, node):
        self.generic_visit(node)
        if isinstance(node.ctx, ast.Load):
            sl = node.slice
            if isinstance(sl, ast.Slice):
                none = ast.Constant(None)
                sl = ast.Call(ast.Name("slice", ast.Load()), [sl.lower or none, sl.upper or none, sl.step or none], [])
            elif isinstance(sl, ast.Tuple) and any(isinstance(e, ast.Slice) for e in sl.elts):
                return node
            return ast.copy_location(ast.Call(func=ast.Name("_sx_getitem", ast.Load()), args=[node.value, sl], keywords=[]), node)
        return node

    def visit_BinOp(self, node):
        self.generic_visit(node)
        if isinstance(node.op, ast.Mod):
            return ast.copy_location(ast.Call(func=ast.Name("_sx_mod", ast.Load()), args=[node.left, node.right], keywords=[]), node)
        return node

    def visit_JoinedStr(self, node):
        self.generic_visit(node)
        parts = []
        for v in node.values:
            if isinstance(v, ast.FormattedValue):
                spec = v.format_spec if v.format_spec is not None else ast.Constant(None)
                parts.append(ast.Call(ast.Name("_sx_fmtval", ast.Load()), [v.value, ast.Constant(v.conversion), spec], []))
            else:
                parts.append(v)
        return ast.copy_location(ast.Call(func=ast.Name("_sx_fstr", ast.Load()), args=parts, keywords=[]), node)

    def visit_Dict(self, node):
        self.generic_visit(node)
        if any(k is None for k in node.keys):  # {**x}
            return node
        pairs = ast.List([ast.Tuple([k, v], ast.Load()) for k, v in zip(node.keys, node.values)], ast.Load())
        return ast.copy_location(ast.Call(ast.Name("_sx_mkdict", ast.Load()), [pairs] if node.keys else [], []), node)

    def visit_Set(self, node):
        self.generic_visit(node)
        return ast.copy_location(ast.Call(ast.Name("_sx_mkset", ast.Load()), [ast.List(node.elts, ast.Load())], []), node)

    def _gens(self, gens, ordered):
        for g in gens:
            if ordered:
                g.iter = ast.Call(ast.Name("_sx_iter", ast.Load()), [g.iter], [])
        return gens

    def visit_SetComp(self, node):
        self.generic_visit(node)
        # the result is unordered, so the source order does not matter
        ge = ast.GeneratorExp(node.elt, self._gens(node.generators, False))
        return ast.copy_location(ast.Call(ast.Name("_sx_mkset", ast.Load()), [ge], []), node)

    def visit_DictComp(self, node):
        self.generic_visit(node)
        ge = ast.GeneratorExp(ast.Tuple([node.key, node.value], ast.Load()), self._gens(node.generators, True))
        return ast.copy_location(ast.Call(ast.Name("_sx_mkdict", ast.Load()), [ge], []), node)

    def visit_ListComp(self, node):
        self.generic_visit(node)
        self._gens(node.generators, True)
        return node

    def visit_GeneratorExp(self, node):
        self.generic_visit(node)
        self._gens(node.generators, True)
        return node

    def visit_For(self, node):
        self.generic_visit(node)
        node.iter = ast.Call(ast.Name("_sx_iter", ast.Load()), [node.iter], [])
        return node


NO_REWRITE_SUFFIXES = ()


def instrument_source(src, filename, modname):
    tree = ast.parse(src, filename)
    tree = Rewriter(modname).visit(tree)
    ast.fix_missing_locations(tree)
    return compile(tree, filename, "exec")


class Finder(importlib.abc.MetaPathFinder, importlib.abc.Loader):
    def __init__(self, root, instrument):
        self.root, self.instrument = root, instrument
        self.sources = {}

    def find_spec(self, name, path, target=None):
        if name == "ipaddress":
            return importlib.util.spec_from_file_location(name, STDLIB_IPADDRESS, loader=self)
        if name != PKG and not name.startswith(PKG + "."):
            return None
        rel = name.replace(".", "/")
        p = os.path.join(self.root, rel, "__init__.py")
        if os.path.exists(p):
            return importlib.util.spec_from_file_location(name, p, loader=self, submodule_search_locations=[os.path.dirname(p)])
        p = os.path.join(self.root, rel + ".py")
        if os.path.exists(p):
            return importlib.util.spec_from_file_location(name, p, loader=self)
        return None

    def create_module(self, spec):
        return None

    def exec_module(self, module):
        path = module.__spec__.origin
        with open(path, encoding="utf-8") as f:
            src = f.read()
        self.sources[module.__name__] = (path, hashlib.sha256(src.encode()).hexdigest())
        if not self.instrument:
            exec(compile(src, path, "exec"), module.__dict__)
            return
        module.__dict__.update(shims.BUILTINS)
        module.__dict__.update(shims.HELPERS)
        module.__dict__["_sx_env"] = _sx_env
        exec(instrument_source(src, path, module.__name__), module.__dict__)


MODULES = ["netconan", "netconan.default_reserved_words", "netconan.default_pwd_regexes", "netconan.utils",
           "netconan.utils.juniper_secrets", "netconan.ip_anonymization", "netconan.sensitive_item_removal",
           "netconan.anonymize_files", "netconan.netconan"]


class Family:
    """One loaded copy of the package: attribute access by short module name."""

    def __init__(self, mods, sources, instrumented):
        self.mods, self.sources, self.instrumented = mods, sources, instrumented
        self.ip = mods["netconan.ip_anonymization"]
        self.sir = mods["netconan.sensitive_item_removal"]
        self.files = mods["netconan.anonymize_files"]
        self.cli = mods["netconan.netconan"]
        self.jun = mods["netconan.utils.juniper_secrets"]
        self.words = mods["netconan.default_reserved_words"]
        self.regexes = mods["netconan.default_pwd_regexes"]
        self.ipaddress = mods["ipaddress"]


def load(root="/repo", instrument=True):
    import importlib
    saved = {}
    for k in list(sys.modules):
        if k == PKG or k.startswith(PKG + ".") or k == "ipaddress":
            saved[k] = sys.modules.pop(k)
    finder = Finder(root, instrument)
    sys.meta_path.insert(0, finder)
    mods = {}
    try:
        for name in MODULES:
            importlib.import_module(name)
        importlib.import_module("ipaddress")
        for k in list(sys.modules):
            if k == PKG or k.startswith(PKG + ".") or k == "ipaddress":
                mods[k] = sys.modules[k]
    finally:
        sys.meta_path.remove(finder)
        for k in list(sys.modules):
            if k == PKG or k.startswith(PKG + ".") or k == "ipaddress":
                del sys.modules[k]
        sys.modules.update(saved)
    fam = Family(mods, dict(finder.sources), instrument)
    if instrument:
        _post_load(fam)
    return fam


def _post_load(fam):
    """Remember the pristine contents of module-level and class-level mutable containers of the package so that every
    explored path starts from them (state a path leaves behind must not leak into the next one)."""
    from .models import SymDict, SymSet
    w = fam.words
    rs = w.default_reserved_words
    if not getattr(rs, "is_symset", False):
        raise EngineError("default_reserved_words is no longer a set display")
    fam.pristine_reserved = set(rs.conc)
    snaps = []
    seen = set()

    def snap(obj):
        if id(obj) in seen:
            return
        if isinstance(obj, SymSet):
            snaps.append((obj, "symset", (set(obj.conc), list(obj.sym))))
        elif isinstance(obj, SymDict):
            snaps.append((obj, "symdict", (dict(obj.conc), [list(e) for e in obj.sym], list(obj.order))))
        elif isinstance(obj, (set, dict, list)):
            snaps.append((obj, type(obj).__name__, obj.copy()))
        else:
            return
        seen.add(id(obj))
    for name, mod in fam.mods.items():
        if not (name == PKG or name.startswith(PKG + ".")):
            continue
        for k, v in list(vars(mod).items()):
            if k.startswith("__") or k in shims.BUILTINS or k in shims.HELPERS:
                continue
            snap(v)
            if isinstance(v, type) and getattr(v, "__module__", None) == name:
                for ck, cv in list(vars(v).items()):
                    if not ck.startswith("__"):
                        snap(cv)

    def reset_reserved():
        for obj, kind, data in snaps:
            if kind == "symset":
                obj.conc.clear()
                obj.conc.update(data[0])
                obj.sym[:] = data[1]
                obj._bylen = None
            elif kind == "symdict":
                obj.conc.clear()
                obj.conc.update(data[0])
                obj.sym[:] = [list(e) for e in data[1]]
                obj.order[:] = data[2]
            elif kind == "list":
                obj[:] = data
            else:
                obj.clear()
                obj.update(data)
    fam.reset_reserved = reset_reserved
    fam.global_state = ["%s" % kind for _, kind, _ in snaps]
