"""Line forms: secret-bearing input skeletons generated from the repo's *current* pattern list on every run.

For every (pattern, group-index) pair of generate_default_sensitive_item_regexes() the sre parse tree is walked and
instantiated: alternations / optional groups / repeated groups are covered each-choice from a base form, wildcards
(`\\S+`, `[^ ;]+`, `.*`, `.{32}`, `\\d+` ...) become *slots*.  The slot belonging to the pattern's secret group is the
secret slot (symbolic in the harnesses), the others get a concrete representative.  A form is kept only if the real
(un-instrumented) pattern list recognises its concrete instantiation.  Test templates of the repo ("...{}...") are
harvested as a second family.
"""
import ast
import os
import re
import re._constants as K
import re._parser as P

DOM = range(256)
SINGLE = (K.LITERAL, K.NOT_LITERAL, K.IN, K.ANY)
_cache = {}


def _atom_set(node, flags):
    from . import symre
    return symre.atom_set(node, flags)


class Slot:
    def __init__(self, chars, lo, hi, groups):
        self.chars, self.lo, self.hi, self.groups = chars, lo, hi, set(groups)

    def __repr__(self):
        return "<slot %d..%s g=%s>" % (self.lo, self.hi, sorted(self.groups))


def _options(node):
    """number of options at this choice point (0 = not a choice point)"""
    op, av = node
    if op is K.BRANCH:
        return len(av[1])
    if op in (K.MAX_REPEAT, K.MIN_REPEAT):
        lo, hi, sub = av
        if len(sub) == 1 and sub[0][0] in SINGLE:
            return 2 if lo == 0 else 0      # empty / non-empty slot
        if hi is K.MAXREPEAT:
            return 3 if lo == 0 else 2
        return min(hi - lo + 1, 3)
    return 0


class Walker:
    """expands one pattern under a choice vector"""

    def __init__(self, tree, flags, choices):
        self.flags, self.choices, self.n = flags, choices, 0
        self.npoints = 0

    def choice(self, nopt):
        i = self.n
        self.n += 1
        c = self.choices.get(i, 0)
        return c if c < nopt else 0

    def walk(self, nodes, groups):
        out = []
        for node in nodes:
            op, av = node
            if op is K.LITERAL:
                out.append(chr(av))
            elif op in (K.NOT_LITERAL, K.IN, K.ANY):
                out.append(Slot(_atom_set(node, self.flags), 1, 1, groups))
            elif op is K.AT:
                pass
            elif op is K.SUBPATTERN:
                g = av[0]
                out += self.walk(list(av[3]), groups | ({g} if g is not None else set()))
            elif op is K.BRANCH:
                alts = av[1]
                c = self.choice(len(alts))
                # choice points inside the alternatives not taken must still consume indices deterministically
                for k, alt in enumerate(alts):
                    if k == c:
                        out += self.walk(list(alt), groups)
                    else:
                        self.skip(list(alt))
            elif op in (K.MAX_REPEAT, K.MIN_REPEAT):
                lo, hi, sub = av
                sub = list(sub)
                if len(sub) == 1 and sub[0][0] in SINGLE:
                    chars = _atom_set(sub[0], self.flags)
                    if lo == 0:
                        c = self.choice(2)
                        if c == 1:
                            continue           # empty
                        out.append(Slot(chars, 1, None if hi is K.MAXREPEAT else hi, groups))
                    else:
                        out.append(Slot(chars, lo, None if hi is K.MAXREPEAT else hi, groups))
                else:
                    nopt = _options(node)
                    c = self.choice(nopt)
                    count = lo + c if lo > 0 else [1, 0, 2][c] if nopt == 3 else [1, 0][c] if nopt == 2 else lo
                    if hi is not K.MAXREPEAT:
                        count = min(count, hi)
                    if count == 0:
                        self.skip(sub)
                    for r in range(count):
                        if r == 0:
                            out += self.walk(sub, groups)
                        else:
                            saved = self.n
                            w = Walker(None, self.flags, {})
                            out += w.walk(sub, groups)
                            self.n = saved
            elif op is K.ASSERT:
                direction, sub = av
                if direction < 0:
                    out.append(("behind", self.walk(list(sub), groups)))
                else:
                    out.append(("ahead", self.walk(list(sub), groups)))
            elif op is K.ASSERT_NOT:
                self.skip(list(av[1]))
            else:
                raise ValueError("unsupported node %s" % op)
        return out

    def skip(self, nodes):
        for node in nodes:
            op, av = node
            if _options(node):
                self.n += 1
            if op is K.SUBPATTERN:
                self.skip(list(av[3]))
            elif op is K.BRANCH:
                for alt in av[1]:
                    self.skip(list(alt))
            elif op in (K.MAX_REPEAT, K.MIN_REPEAT):
                sub = list(av[2])
                if not (len(sub) == 1 and sub[0][0] in SINGLE):
                    self.skip(sub)
            elif op in (K.ASSERT, K.ASSERT_NOT):
                self.skip(list(av[1]))


def _count_points(nodes):
    n = 0
    opts = []

    def rec(nodes):
        for node in nodes:
            op, av = node
            k = _options(node)
            if k:
                opts.append(k)
            if op is K.SUBPATTERN:
                rec(list(av[3]))
            elif op is K.BRANCH:
                for alt in av[1]:
                    rec(list(alt))
            elif op in (K.MAX_REPEAT, K.MIN_REPEAT):
                sub = list(av[2])
                if not (len(sub) == 1 and sub[0][0] in SINGLE):
                    rec(sub)
            elif op in (K.ASSERT, K.ASSERT_NOT):
                rec(list(av[1]))
    rec(nodes)
    return opts


def _flatten(segs):
    """resolve look-behind (text that must precede) / look-ahead (text that follows) into plain sequence"""
    out = []
    for s in segs:
        if isinstance(s, tuple):
            kind, inner = s
            inner = _flatten(inner)
            if kind == "behind":
                out = inner + out if not out else out + inner  # look-behind at the start: preceding text
            else:
                out.append(("ahead", inner))
        else:
            out.append(s)
    # look-aheads: keep their text once, right after the point where they occur, unless the following segments already supply it
    res = []
    for i, s in enumerate(out):
        if isinstance(s, tuple):
            rest = out[i + 1:]
            if not rest:
                res += s[1]
        else:
            res.append(s)
    return res


SAMPLE_WORD = "ctx"


def _sample(slot, secret=False, digit="7"):
    """a concrete representative for a context slot"""
    chars = slot.chars
    if digit != "7" and chars <= frozenset(range(48, 58)) and (slot.hi is None or slot.hi >= len(digit)) and slot.lo <= len(digit) and slot.lo != slot.hi:
        return digit
    n = max(slot.lo, 1)
    if slot.hi is not None:
        n = min(max(n, 1), slot.hi)
    if ord("x") in chars and ord(" ") not in chars:
        base = SAMPLE_WORD
    elif chars <= frozenset(range(48, 58)):
        base = "7"
    elif ord("x") in chars:
        base = "more text" if ord(" ") in chars else SAMPLE_WORD
    else:
        base = chr(sorted(chars)[0])
    if slot.hi is not None and slot.lo == slot.hi:
        return (base * n)[:n] if len(base) < n else base[:n]
    return base


class Form:
    """segments: list of str | Slot ; secret: index of the secret slot in segments (or None)"""

    def __init__(self, pat_index, group_index, pattern, segs, secret, choice):
        self.pat_index, self.group_index, self.pattern, self.segs, self.secret, self.choice = pat_index, group_index, pattern, segs, secret, choice
        self.digit = "7"     # representative for variable-length digit context slots ("42" in the multi-digit variants)

    def text(self, secret_text, ctx=None):
        out = []
        for i, s in enumerate(self.segs):
            if isinstance(s, str):
                out.append(s)
            elif i == self.secret:
                out.append(secret_text)
            else:
                out.append(_sample(s, digit=self.digit))
        return "".join(out)

    def parts(self):
        """(prefix text, secret Slot, suffix text)"""
        pre = "".join(s if isinstance(s, str) else _sample(s, digit=self.digit) for s in self.segs[:self.secret])
        suf = "".join(s if isinstance(s, str) else _sample(s, digit=self.digit) for s in self.segs[self.secret + 1:])
        return pre, self.segs[self.secret], suf

    def key(self):
        return (self.pat_index, self.parts()[0], self.parts()[2])

    def __repr__(self):
        pre, slot, suf = self.parts()
        return "Form(p%d %r <secret> %r)" % (self.pat_index, pre, suf)


def _merge(segs):
    out = []
    for s in segs:
        if isinstance(s, str) and out and isinstance(out[-1], str):
            out[-1] += s
        else:
            out.append(s)
    return out


def forms_for_pattern(pat_index, regex_text, secret_group, flags=0, cap=40):
    tree = P.parse(regex_text, flags)
    tflags = tree.state.flags
    nodes = list(tree)
    opts = _count_points(nodes)
    vectors = [{}]
    for i, k in enumerate(opts):
        for c in range(1, k):
            vectors.append({i: c})
    out, seen = [], set()
    for v in vectors:
        try:
            segs = _merge(_flatten(Walker(tree, tflags, v).walk(nodes, set())))
        except (ValueError, IndexError):
            continue
        slots = [i for i, s in enumerate(segs) if isinstance(s, Slot)]
        if not slots:
            continue
        if secret_group is None or secret_group == 0:
            sec = slots[-1]            # whole match is sensitive: vary the last wildcard
        else:
            cands = [i for i in slots if secret_group in segs[i].groups]
            if not cands:
                continue
            sec = cands[-1]
        f = Form(pat_index, secret_group, regex_text, segs, sec, v)
        k = f.key()
        if k in seen:
            continue
        seen.add(k)
        out.append(f)
        if len(out) >= cap:
            break
    # multi-digit variants: every form with a variable-length digit context slot also with a two-digit representative
    for f in list(out):
        g = Form(f.pat_index, f.group_index, f.pattern, f.segs, f.secret, dict(f.choice, digits="42"))
        g.digit = "42"
        k = g.key()
        if k not in seen:
            seen.add(k)
            out.append(g)
    return out


def pattern_table(sir_module):
    """[(index, regex text without the allowed-prefix, secret group index, group number)] from the live module"""
    combined = sir_module.aws_regexes + sir_module.default_pwd_line_regexes + sir_module.default_com_line_regexes + sir_module.extra_password_regexes
    out = []
    i = 0
    for gi, grp in enumerate(combined):
        for regex_, num in grp:
            out.append((i, regex_, num, gi))
            i += 1
    return out


def harvest_test_templates(repo):
    """('template with {}', sample secret) pairs from the repo's own tests"""
    path = os.path.join(repo, "tests", "unit", "test_sensitive_item_removal.py")
    out = []
    try:
        t = ast.parse(open(path, encoding="utf-8").read())
    except (OSError, SyntaxError):
        return out
    for n in ast.walk(t):
        if isinstance(n, ast.Tuple) and len(n.elts) == 2 and all(isinstance(e, ast.Constant) and isinstance(e.value, str) for e in n.elts):
            tpl, sec = n.elts[0].value, n.elts[1].value
            if tpl.count("{}") == 1 and "\n" not in tpl and all(ord(c) < 256 for c in tpl):
                out.append((tpl, sec))
    seen, res = set(), []
    for tpl, sec in out:
        if tpl not in seen:
            seen.add(tpl)
            res.append((tpl, sec))
    return res


def all_forms(plain_family, repo, per_pattern_cap=40):
    """Generated + harvested forms that the real pattern list recognises (the sample secret does not survive)."""
    sir = plain_family.sir
    table = pattern_table(sir)
    regexes = sir.generate_default_sensitive_item_regexes()
    reserved = plain_family.words.default_reserved_words
    forms = []
    stats = dict(patterns=len(table), generated=0, kept=0, dropped=0, harvested=0)
    SAMPLE = "Zq8kW3xv"
    for i, regex_, num, gi in table:
        for f in forms_for_pattern(i, regex_, num, cap=per_pattern_cap):
            stats["generated"] += 1
            pre, slot, suf = f.parts()
            sample = SAMPLE
            if slot.hi is not None and slot.lo == slot.hi:
                sample = (SAMPLE * 8)[:slot.lo]
            if not all(ord(c) in slot.chars for c in sample):
                sample = "".join(c for c in sample if ord(c) in slot.chars) or chr(sorted(slot.chars)[0])
            line = pre + sample + suf
            try:
                outl = sir.replace_matching_item(regexes, line, {}, "S", reserved)
            except Exception:
                outl = None
            if outl is not None and (sample in outl or outl == line):
                stats["dropped"] += 1
                continue
            f.sample = sample
            forms.append(f)
            stats["kept"] += 1
    harvested = []
    for tpl, sec in harvest_test_templates(repo):
        pre, suf = tpl.split("{}")
        harvested.append((pre, suf, sec))
    stats["harvested"] = len(harvested)
    return forms, harvested, stats
