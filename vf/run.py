"""python -m vf.run <ID> <quick|thorough>     decide one property on /repo's current working tree
   python -m vf.run <ID> --replay <file>      re-run one recorded counterexample concretely

Exit 0: every obligation holds within the stated bounds (known findings are printed as KNOWN-FINDING).
Exit 1: a solver counterexample reproduced on the un-instrumented code (VIOLATION line printed).
Exit 2: inconclusive (engine error, solver unknown, time-out, non-reproducing counterexample).
"""
import hashlib
import importlib
import json
import os
import re
import subprocess
import sys
import time

HERE = os.path.dirname(os.path.dirname(os.path.abspath(__file__)))
REPO = os.environ.get("VF_REPO", "/repo")
PLAIN_PY = os.environ.get("VF_PLAIN_PY", "/venv/bin/python")


def load_known():
    p = os.path.join(HERE, "known_findings.json")
    if not os.path.exists(p):
        return []
    return json.load(open(p))


def match_known(known, prop, viol):
    for k in known:
        if k.get("property") != prop or k.get("status") != "known":
            continue
        m = k.get("match", {})
        if "obligation" in m and not re.search(m["obligation"], viol.get("obligation", "")):
            continue
        if "tag" in m and m["tag"] not in viol.get("tags", []):
            continue
        if "tag_re" in m and not any(re.search(m["tag_re"], t) for t in viol.get("tags", [])):
            continue
        if "witness" in m and not re.search(m["witness"], json.dumps(viol.get("witness"), sort_keys=True)):
            continue
        return k
    return None


def replay_file(path):
    """run a replay file in a fresh un-instrumented interpreter; returns dict or None"""
    try:
        out = subprocess.run([PLAIN_PY, os.path.join(HERE, "vf", "replay_main.py"), path], capture_output=True, text=True,
                             timeout=600, env=dict(os.environ, VF_REPO=REPO, PYTHONPATH=HERE))
    except subprocess.TimeoutExpired:
        return None
    last = [l for l in out.stdout.splitlines() if l.startswith("REPLAY-RESULT ")]
    if not last:
        sys.stderr.write(out.stdout[-2000:] + out.stderr[-2000:])
        return None
    return json.loads(last[-1][len("REPLAY-RESULT "):])


def main(argv):
    if len(argv) < 2:
        print(__doc__)
        return 2
    pid = argv[0].upper()
    if argv[1] == "--replay":
        r = replay_file(argv[2])
        print(json.dumps(r, indent=1))
        if r is None:
            return 2
        if r.get("violated"):
            print("VIOLATION property=%s replay=%s" % (pid, argv[2]))
            return 1
        print("replay does not violate the property on the current tree")
        return 0
    tier = argv[1]
    if tier == "thorough":
        os.environ.setdefault("VF_SOLVER_TIMEOUT_MS", "30000")   # per-query budget (one 9x retry on unknown)
    if tier not in ("quick", "thorough"):
        print(__doc__)
        return 2
    seed = int(os.environ.get("VERIF_SEED", "0") or 0)
    t0 = time.time()
    modname = "vf.props.%s" % pid.lower()
    try:
        mod = importlib.import_module(modname)
    except ModuleNotFoundError:
        print("no check for property %s" % pid)
        return 2
    from . import harness, evidence
    try:
        items = mod.items(tier, seed)
        from . import selfcheck
        seen_ids, uniq = set(), []
        for it in items:
            if it.id not in seen_ids:
                seen_ids.add(it.id)
                uniq.append(it)
        flt = os.environ.get("VF_ITEM_FILTER")     # debugging aid (not used by the registered commands): run a subset of the work list
        if flt:
            uniq = [it for it in uniq if re.search(flt, it.id)]
        items = uniq + selfcheck.items(tier, seed, sre=getattr(mod, "USES_REGEX", False))
    except BaseException as e:
        import traceback
        traceback.print_exc()
        print("INCONCLUSIVE property=%s: could not build the work list from the current tree: %r" % (pid, e))
        return 2
    print("[%s %s] %d work items, seed %d, repo %s" % (pid, tier, len(items), seed, REPO), flush=True)
    verbose = os.environ.get("VF_VERBOSE")

    def progress(item, res):
        if verbose or res["status"] != "holds":
            print("  %-12s %-70s paths=%d queries=%d %.1fs %s" % (res["status"], item.id[:70], res["paths"], res["queries"],
                                                                res["wall_s"], "; ".join(res["notes"])[:300]), flush=True)
    results = harness.run_items(items, modname, progress=progress)
    known = load_known()
    RDIR = os.environ.get("VF_REPLAY_DIR") or os.path.join(HERE, "replays")
    os.makedirs(RDIR, exist_ok=True)
    n_viol, n_known, n_inconcl = 0, 0, 0
    seen_known = {}
    lines = []
    for it, res in zip(items, results):
        if res["status"] == "inconclusive":
            n_inconcl += 1
            lines.append("INCONCLUSIVE property=%s item=%s: %s" % (pid, it.id[:120], "; ".join(res["notes"])[:400]))
        kept, per_class = [], {}
        for v in res["violations"]:
            key = tuple(sorted(v.get("tags", [])))
            per_class[key] = per_class.get(key, 0) + 1
            if per_class[key] <= 2:
                kept.append(v)
        for v in kept:
            v.setdefault("obligation", res["obligation"])
            h = hashlib.sha256(json.dumps(v.get("replay"), sort_keys=True, default=str).encode()).hexdigest()[:12]
            path = os.path.join(RDIR, "%s-%s.json" % (pid, h))
            json.dump(dict(property=pid, obligation=v["obligation"], description=v.get("description"), witness=v.get("witness"),
                           tags=v.get("tags", []), replay=v.get("replay"),
                           replay_cmd="./check %s --replay %s" % (pid, path)), open(path, "w"), indent=1, default=str)
            if v.get("confirmed") is None:
                rr = replay_file(path)
                v["confirmed"] = bool(rr and rr.get("violated"))
                v["replay_result"] = rr
            if not v["confirmed"]:
                n_inconcl += 1
                lines.append("INCONCLUSIVE property=%s: solver counterexample did not reproduce on the un-instrumented code "
                             "(engine or stub mismatch) obligation=%s replay=%s" % (pid, v["obligation"], path))
                continue
            k = match_known(known, pid, v)
            if k is not None:
                n_known += 1
                v["known"] = k.get("id")
                if k.get("id") not in seen_known:
                    seen_known[k.get("id")] = 0
                    lines.append("KNOWN-FINDING: property=%s %s [%s]" % (pid, k.get("description"), k.get("id")))
                seen_known[k.get("id")] += 1
            else:
                n_viol += 1
                v["replay_path"] = path
                lines.append("VIOLATION property=%s replay=%s" % (pid, path))
                lines.append("  obligation=%s %s witness=%s" % (v["obligation"], v.get("description"), json.dumps(v.get("witness"), default=str)[:600]))
    wall = time.time() - t0
    evidence.write(pid, tier, seed, mod, items, results, wall, n_viol, n_known, n_inconcl)
    tot = dict(paths=sum(r["paths"] for r in results), queries=sum(r["queries"] for r in results),
               solver_s=round(sum(r["solver_s"] for r in results), 1))
    for l in lines:
        print(l)
    print("[%s %s] items=%d holds=%d violations=%d known=%d inconclusive=%d paths=%d queries=%d solver=%.1fs wall=%.1fs" % (
        pid, tier, len(items), sum(1 for r in results if r["status"] == "holds"), n_viol, n_known, n_inconcl,
        tot["paths"], tot["queries"], tot["solver_s"], wall))
    if n_viol:
        return 1
    if n_inconcl:
        return 2
    return 0


if __name__ == "__main__":
    sys.exit(main(sys.argv[1:]))
