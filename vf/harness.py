"""Work items, worker-side helpers and the process scheduler."""
import json
import multiprocessing as mp
import os
import queue
import time
import traceback

import z3

from . import core, instr, models
from .core import Explorer, EngineError, Inconclusive, SStr, SInt

REPO = os.environ.get("VF_REPO", "/repo")
_FAM = {}


def fam():
    """instrumented module family (per process, loaded on first use from /repo's working tree)"""
    if "i" not in _FAM:
        _FAM["i"] = instr.load(REPO, True)
        core.GLOBAL_RESETTERS.append(_FAM["i"].reset_reserved)
    return _FAM["i"]


def plain():
    """un-instrumented module family of the same sources"""
    if "p" not in _FAM:
        _FAM["p"] = instr.load(REPO, False)
    return _FAM["p"]


class Item:
    """One independent unit of work: a harness function with parameters."""

    def __init__(self, prop, harness, params, budget_s=120, obligation=None):
        self.prop, self.harness, self.params, self.budget_s = prop, harness, params, budget_s
        self.obligation = obligation or harness
        self.id = "%s/%s" % (harness, json.dumps(params, sort_keys=True, default=str))

    def __repr__(self):
        return self.id


def new_result(item):
    return dict(item=item.id, obligation=item.obligation, status="holds", paths=0, states=0, transitions=0, queries=0,
                sat=0, unsat=0, unknown=0, solver_s=0.0, validated=0, samples=[], violations=[], notes=[], finals=0,
                finals_unsat=0, vacuity=None, wall_s=0.0)


def add_stats(res, ex):
    st = ex.stats()
    for k in ("paths", "states", "transitions", "queries", "sat", "unsat", "unknown"):
        res[k] += st[k]
    res["solver_s"] = round(res["solver_s"] + st["solver_s"], 3)


def ev(model, x):
    """evaluate a proxy / z3 term under a model -> python int / str"""
    if isinstance(x, (int, str)) or x is None:
        return x
    if isinstance(x, SInt):
        return model.eval(x.e, model_completion=True).as_signed_long()
    if isinstance(x, SStr):
        out = []
        for c in x.cs:
            if isinstance(c, int):
                out.append(chr(c))
            elif isinstance(c, core.Atom):
                out.append(render_atom(c, model))
            else:
                out.append(chr(model.eval(c, model_completion=True).as_long()))
        return "".join(out)
    if z3.is_bv(x):
        return model.eval(x, model_completion=True).as_long()
    if z3.is_bool(x):
        return z3.is_true(model.eval(x, model_completion=True))
    if isinstance(x, (list, tuple)):
        return type(x)(ev(model, y) for y in x)
    raise EngineError("ev(%s)" % type(x).__name__)


def render_atom(a, model):
    import ipaddress
    v = model.eval(a.e, model_completion=True)
    if a.kind == "ipv4":
        return str(ipaddress.IPv4Address(v.as_long()))
    if a.kind == "ipv6":
        return str(ipaddress.IPv6Address(v.as_long()))
    if a.kind == "dec":
        return str(v.as_signed_long())
    return "<opaque>"


# --------------------------------------------------------------------------- scheduler
def _worker(inq, outq, registry_mod):
    import importlib
    import logging
    logging.disable(logging.CRITICAL)
    mod = importlib.import_module(registry_mod)
    while True:
        job = inq.get()
        if job is None:
            return
        idx, item = job
        outq.put(("start", idx, os.getpid(), time.time()))
        t0 = time.time()
        res = new_result(item)
        try:
            fn = mod.HARNESSES.get(item.harness)
            if fn is None:
                from . import selfcheck
                fn = selfcheck.HARNESSES[item.harness]
            r = fn(item, res)
            if r is not None:
                res = r
            if res["status"] == "holds" and res.get("unknown", 0) > 0:
                res["status"] = "inconclusive"
                res["notes"].append("z3 answered unknown on %d queries: no verdict for this item" % res["unknown"])
        except (EngineError, Inconclusive) as e:
            res["status"] = "inconclusive"
            res["notes"].append("%s: %s" % (type(e).__name__, e))
        except BaseException as e:  # engine crash
            res["status"] = "inconclusive"
            res["notes"].append("engine crash: %s\n%s" % (repr(e), traceback.format_exc()[-1500:]))
        res["wall_s"] = round(time.time() - t0, 2)
        outq.put(("done", idx, res))


def run_items(items, registry_mod, jobs=None, hard_factor=1.5, progress=None):
    """Run items in worker processes; an item that exceeds its hard time limit is killed and reported inconclusive."""
    jobs = jobs or min(len(items), int(os.environ.get("VF_JOBS", "16"))) or 1
    ctx = mp.get_context("fork")
    outq = ctx.Queue()
    results = [None] * len(items)
    order = sorted(range(len(items)), key=lambda i: -items[i].budget_s)
    pending = list(order)
    workers = {}  # pid -> (proc, inq, current idx, start time)

    def spawn():
        inq = ctx.Queue()
        p = ctx.Process(target=_worker, args=(inq, outq, registry_mod), daemon=True)
        p.start()
        workers[p.pid] = [p, inq, None, None]
        return p.pid

    def feed(pid):
        if pending:
            idx = pending.pop(0)
            workers[pid][1].put((idx, items[idx]))
            workers[pid][2], workers[pid][3] = idx, time.time()
        else:
            workers[pid][1].put(None)
            workers[pid][2] = None

    for _ in range(jobs):
        feed(spawn())
    ndone = 0
    while ndone < len(items):
        try:
            msg = outq.get(timeout=1.0)
        except queue.Empty:
            msg = None
        if msg is not None:
            if msg[0] == "done":
                _, idx, res = msg
                if results[idx] is None:
                    results[idx] = res
                    ndone += 1
                    if progress:
                        progress(items[idx], res)
                for pid, w in workers.items():
                    if w[2] == idx:
                        feed(pid)
                        break
            continue
        now = time.time()
        for pid in list(workers):
            p, inq, idx, st = workers[pid]
            if idx is None:
                continue
            limit = items[idx].budget_s * hard_factor + 30
            dead = not p.is_alive()
            if dead or now - st > limit:
                if not dead:
                    p.kill()
                p.join(1)
                if results[idx] is None:
                    r = new_result(items[idx])
                    r["status"] = "inconclusive"
                    r["notes"].append("worker died" if dead else "hard time limit (%ds) exceeded; worker killed" % limit)
                    r["wall_s"] = round(now - st, 2)
                    results[idx] = r
                    ndone += 1
                    if progress:
                        progress(items[idx], r)
                del workers[pid]
                feed(spawn())
    for pid, w in workers.items():
        try:
            w[1].put(None)
        except Exception:
            pass
    for pid, w in workers.items():
        w[0].join(2)
        if w[0].is_alive():
            w[0].kill()
    return results
