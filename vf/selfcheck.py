"""Engine self-validation, run as work items inside every check: the symbolic machinery is pushed through *concrete*
data (proxies forced on) and compared with CPython / the real libraries.  A mismatch is an engine error (exit 2)."""
import ast
import os
import random
import re
import time
import z3

from . import core, models, symre, harness
from .core import SStr, SInt, EngineError, Explorer
from .harness import Item, fam, plain

REPO = harness.REPO


def _literals(limit_len=100):
    lits = set()
    tdir = os.path.join(REPO, "tests", "unit")
    for f in sorted(os.listdir(tdir)):
        if not f.endswith(".py"):
            continue
        try:
            t = ast.parse(open(os.path.join(tdir, f), encoding="utf-8").read())
        except SyntaxError:
            continue
        for n in ast.walk(t):
            if isinstance(n, ast.Constant) and isinstance(n.value, str) and 0 < len(n.value) < limit_len and "\n" not in n.value.strip("\n"):
                v = n.value.replace("{}", "1.2.3.4").replace("{0}", "foo").replace("{1}", "bar")
                if all(ord(c) < 256 for c in v):
                    lits.add(v)
    return sorted(lits)


def repo_patterns():
    P = plain()
    pats = []
    for g in P.sir.generate_default_sensitive_item_regexes():
        for c, n in g:
            pats.append(c)
    pats += [P.ip.IPv4_PATTERN, P.ip.IPv6_PATTERN, P.ip.IpAnonymizer._DROP_ZEROS_PATTERN, re.compile(P.jun.VALID)]
    pats += [re.compile(p) for p in [r"^\$9\$[\S]+$", r"^\$6\$[\S]+$", r"^\$1\$[\S]+\$[\S]+$", r"^[0-9a-fA-F]+$", r"^[01][0-9]([0-9a-fA-F]{2})+$", r"^[0-9]+$",
                                     r"(?:(?<=\D)|(?<=^))(12|123|65000)(?=\D|$)"]]
    pats.append(re.compile("(sea|seattle|lax|attle)", re.I))
    pats += [re.compile(p) for p in [r"(\s)+", r"(\s+)", r"\s*", r",|(;)", r"(a|ab)(c|bcd)(d*)", r"(a*)*b", r"(?:x|(y))*z", r"^(a?)*$", r"(\s*)(\S*?)(\s*)$", r"x*", r"(?=(a+))a*b\1"[:9]]]
    return pats


def selftest_sre(item, res):
    """sre interpreter vs CPython's re on the repo's own test literals: search spans+groups and sub results."""
    rnd = random.Random(item.params["seed"])
    lits = _literals()
    extra = ["", " ", "\n", "a\n", "$9$abcd\n", "password foo password bar", "::ffff:1.2.3.4", "fe80:%x", "1.2.3.256", "01.002.3.4/24",
             "snmp-server user a\\q auth md5 pw priv des pw2", "key \"abc def\"", "\\g<1>", "neighbor 1.2.3.4 password 7 0822455D0A16"]
    lits = lits + extra
    pats = repo_patterns()
    if item.params.get("sample"):
        lits = rnd.sample(lits, min(len(lits), item.params["sample"])) + extra
    n = bad = 0
    t0 = time.time()
    for p in pats:
        sp = symre.SymPattern(p.pattern, p.flags)
        sp.force_symbolic = True
        for l in lits:
            n += 1
            m1 = p.search(l)
            m2 = sp.search(SStr.of(l))
            a = None if m1 is None else (m1.span(), tuple(m1.span(i) for i in range(1, p.groups + 1)))
            b = None if m2 is None else (m2.span(), tuple(m2.span(i) for i in range(1, p.groups + 1)))
            if a != b:
                bad += 1
                res["notes"].append("SEARCH DIFF %r on %r: %r vs %r" % (p.pattern[:50], l, a, b))
            r1 = p.sub("<X>", l)
            r2 = sp.sub("<X>", SStr.of(l))
            r2 = r2.plain() if isinstance(r2, SStr) else r2
            if r1 != r2:
                bad += 1
                res["notes"].append("SUB DIFF %r on %r: %r vs %r" % (p.pattern[:50], l, r1, r2))
            s1 = p.split(l)
            s2 = [x.plain() if isinstance(x, SStr) else x for x in sp.split(SStr.of(l))]
            f1 = [m.span() for m in p.finditer(l)]
            f2 = [m.span() for m in sp.finditer(SStr.of(l))]
            if s1 != s2 or f1 != f2:
                bad += 1
                res["notes"].append("SPLIT/FINDITER DIFF %r on %r: %r vs %r" % (p.pattern[:50], l, s1, s2))
            if time.time() - t0 > item.budget_s * 0.8:
                break
    res["validated"] += n
    res["finals"] += n
    res["finals_unsat"] += n - bad
    res["states"], res["transitions"] = 1, 1
    res["samples"].append(dict(selftest="sre interpreter vs CPython re", comparisons=n, differences=bad, patterns=len(pats), literals=len(lits)))
    if bad:
        res["notes"] = res["notes"][:5]
        raise EngineError("sre interpreter disagrees with CPython on %d of %d comparisons" % (bad, n))


def _method_battery():
    """string / integer methods on *symbolic* operands: every explored path's model is pushed through the same CPython
    operation and must give the path's result (value or exception type)"""
    tests = {
        "rpartition": lambda s, i: s.rpartition("$"), "partition": lambda s, i: s.partition("$"), "rsplit": lambda s, i: s.rsplit(" ", 1),
        "split": lambda s, i: s.split(), "split$": lambda s, i: s.split("$"), "split-ab": lambda s, i: s.split("ab"), "split1": lambda s, i: s.split("a", 1), "part-ab": lambda s, i: s.partition("ab"), "part-self": lambda s, i: s.partition(s.strip()) if s.strip() else None,
        "rpart-ab": lambda s, i: s.rpartition("ab"), "splitlines": lambda s, i: s.splitlines(), "splitlines+": lambda s, i: s.splitlines(True),
        "rfind": lambda s, i: s.rfind("a"), "find": lambda s, i: s.find("b"), "index": lambda s, i: s.index("a"), "count": lambda s, i: s.count("a"),
        "count2": lambda s, i: s.count("aa"), "replace": lambda s, i: s.replace("a", "bc"), "replace1": lambda s, i: s.replace("ab", "", 1),
        "removeprefix": lambda s, i: s.removeprefix("a"), "removesuffix": lambda s, i: s.removesuffix("ab"), "rjust": lambda s, i: s.rjust(5, "0"),
        "ljust": lambda s, i: s.ljust(5), "zfill": lambda s, i: s.zfill(6), "strip": lambda s, i: s.strip(), "lstrip": lambda s, i: s.lstrip("a+"),
        "startswith": lambda s, i: s.startswith(("ab", "$")), "endswith": lambda s, i: s.endswith(("ab", "\n")), "isdigit": lambda s, i: s.isdigit(),
        "abs": lambda s, i: abs(i - 100), "bit_length": lambda s, i: (i - 7).bit_length(), "pow": lambda s, i: i ** 3, "divmod": lambda s, i: divmod(i - 50, 7),
        "invert": lambda s, i: ~i & 0xff, "and-": lambda s, i: (i - 128) & (i - 129), "shift-": lambda s, i: (i - 128) >> 2,
    }
    n = 0
    for name, f in tests.items():
        ex = Explorer()
        cs = [z3.BitVec("mb%d" % k, 8) for k in range(3)]
        v = z3.BitVec("mbv", 8)

        def h(ex_, f=f, cs=cs, v=v):
            for c in cs:
                ex_.assume(core.in_set_expr(c, frozenset(map(ord, "ab $\n\r+7"))))
            return f(SStr.mk(list(cs)), SInt.unsigned(v))
        for p in ex.explore(h):
            m = p.model
            if m is None:
                continue
            text = "".join(chr(m.eval(c, model_completion=True).as_long()) for c in cs)
            iv = m.eval(v, model_completion=True).as_long()
            try:
                want = f(text, iv)
            except Exception as e:
                want = "EXC:" + type(e).__name__

            def conc(x):
                if isinstance(x, SStr):
                    return "".join(chr(c) if isinstance(c, int) else chr(m.eval(c, model_completion=True).as_long()) for c in x.cs)
                if isinstance(x, SInt):
                    return m.eval(x.e, model_completion=True).as_signed_long()
                if isinstance(x, (list, tuple)):
                    return type(x)(conc(y) for y in x)
                return x
            got = "EXC:" + type(p.exc).__name__ if p.exc is not None else conc(p.result)
            n += 1
            if got != want:
                raise EngineError("proxy method %s disagrees with CPython on %r / %d: %r vs %r" % (name, text, iv, got, want))
    return n


def selftest_models(item, res):
    """container models vs the real bidict/dict/set, SInt vs int, SStr methods vs str, instrumented vs plain modules."""
    import bidict
    rnd = random.Random(item.params["seed"])
    ex = Explorer()
    checks = 0

    def run(ex_):
        nonlocal checks
        # bidict model under random operation sequences (concrete keys wrapped as SStr with forced-symbolic compare off)
        for _ in range(150):
            real, mod = bidict.bidict({"": ""}), models.SymBidict({"": ""})
            for _ in range(12):
                k = "".join(rnd.choice("01") for _ in range(rnd.randint(0, 3)))
                v = "".join(rnd.choice("01") for _ in range(rnd.randint(0, 3)))
                inv = rnd.random() < 0.4
                e1 = e2 = None
                try:
                    if inv:
                        real.inv[k] = v
                    else:
                        real[k] = v
                except Exception as e:
                    e1 = type(e).__name__
                try:
                    if inv:
                        mod.inv[k] = v
                    else:
                        mod[k] = v
                except Exception as e:
                    e2 = type(e).__name__
                checks += 1
                if e1 != e2 or dict(real.items()) != dict(mod.items()) or real.get(k) != mod.get(k) or real.inv.get(v) != mod.inv.get(v):
                    raise EngineError("bidict model mismatch: %r %r inv=%r: %r/%r %r vs %r" % (k, v, inv, e1, e2, dict(real), dict(mod.items())))
        # SInt arithmetic vs int (concrete values lifted to symbolic terms through a pinned variable)
        for _ in range(300):
            a, b = rnd.randint(-300, 300), rnd.randint(1, 70)
            va = z3.BitVec("sa", 12)
            ex_.assume(va == z3.BitVecVal(a, 12))
            sa = SInt(va, -2048, 2047, 12)
            for name, f in (("add", lambda x: x + b), ("sub", lambda x: x - b), ("rsub", lambda x: b - x), ("mul", lambda x: x * b), ("floordiv", lambda x: x // b),
                            ("mod", lambda x: x % b), ("neg", lambda x: -x)):
                r = f(sa)
                want = f(a)
                got = r if isinstance(r, int) else ex_.model().eval(r.e, model_completion=True).as_signed_long()
                checks += 1
                if got != want:
                    raise EngineError("SInt.%s mismatch: %d,%d -> %d vs %d" % (name, a, b, got, want))
            if a >= 0:
                sa = SInt(va, 0, 2047, 12)
                c = rnd.randint(0, 300)
                for name, f in (("and", lambda x: x & c), ("or", lambda x: x | c), ("xor", lambda x: x ^ c), ("rshift", lambda x: x >> 3), ("lshift", lambda x: x << 3)):
                    r = f(sa)
                    want = f(a)
                    got = r if isinstance(r, int) else ex_.model().eval(r.e, model_completion=True).as_signed_long()
                    checks += 1
                    if got != want:
                        raise EngineError("SInt.%s mismatch: %d,%d -> %d vs %d" % (name, a, c, got, want))
            # bit operations on possibly negative values (Python's infinite two's complement)
            sa = SInt(va, -2048, 2047, 12)
            c = rnd.randint(-300, 300)
            for name, f in (("and-", lambda x: x & c), ("or-", lambda x: x | c), ("xor-", lambda x: x ^ c), ("rshift-", lambda x: x >> 3), ("lshift-", lambda x: x << 3),
                            ("invert", lambda x: ~x), ("x&(x-1)", lambda x: x & (x - 1)), ("x|(x+1)", lambda x: x | (x + 1))):
                r = f(sa)
                want = f(a)
                got = r if isinstance(r, int) else ex_.model().eval(r.e, model_completion=True).as_signed_long()
                checks += 1
                if got != want:
                    raise EngineError("SInt.%s mismatch: %d,%d -> %d vs %d" % (name, a, c, got, want))
            ex_.solver.pop()
            ex_.solver.push()
        return True
    paths = ex.explore(run, want_model=False)
    if any(p.exc is not None for p in paths):
        raise EngineError("model self-test raised: %r" % [p.exc for p in paths if p.exc is not None][:1])
    # int(int / 2**k): IEEE-754 double semantics of the SFloat model vs CPython
    for _ in range(40):
        big = rnd.getrandbits(rnd.choice([20, 54, 60, 70, 100, 128]))
        for kk in (0, 1, 8, 33):
            vb = z3.BitVec("sb", 130)
            e3 = Explorer()

            def hf(ex_, big=big, kk=kk, vb=vb):
                ex_.assume(vb == z3.BitVecVal(big, 130))
                return core.sym_int(SInt(vb, 0, (1 << 128) - 1, 130) / (2 ** kk))
            ps = e3.explore(hf)
            r = ps[0].result
            got = r if isinstance(r, int) else ps[0].model.eval(r.e, model_completion=True).as_signed_long()
            checks += 1
            if len(ps) != 1 or got != int(big / 2 ** kk):
                raise EngineError("SFloat mismatch: int(%d / 2**%d) = %d vs %r" % (big, kk, int(big / 2 ** kk), got))
    # int(str) on symbolic text: every path (value or ValueError) agrees with CPython on its model, and the paths cover
    # the characters CPython tolerates (sign, surrounding whitespace, underscore)
    for b in (10, 16):
        for lit in ([None, None], [ord("4"), None, None], [None, ord("7"), None]):
            e4 = Explorer()
            vs_ = [z3.BitVec("si%d" % i, 8) for i in range(len(lit))]

            def hi(ex_, b=b, lit=lit, vs_=vs_):
                for c in vs_:
                    ex_.assume(z3.Not(core.in_set_expr(c, frozenset(ord(ch) for ch in "xXbBoO"))))
                return core.sym_int(SStr.mk([v if l is None else l for v, l in zip(vs_, lit)]), b)
            seen_valid_nondigit = False
            for p_ in e4.explore(hi):
                if p_.model is None:
                    continue
                text = "".join(chr(p_.model.eval(v, model_completion=True).as_long()) if l is None else chr(l) for v, l in zip(vs_, lit))
                try:
                    want = int(text, b)
                except ValueError:
                    want = "ValueError"
                if p_.exc is not None:
                    got = type(p_.exc).__name__
                else:
                    r = p_.result
                    got = r if isinstance(r, int) else p_.model.eval(r.e, model_completion=True).as_signed_long()
                    seen_valid_nondigit = seen_valid_nondigit or not all(ch in "0123456789abcdefABCDEF" for ch in text)
                checks += 1
                if got != want:
                    raise EngineError("int() model mismatch on %r base %d: %r vs CPython %r" % (text, b, got, want))
            if not seen_valid_nondigit:
                raise EngineError("int() model self-test never reached a literal with sign/whitespace/underscore")
    checks += _method_battery()
    # SStr methods vs str on concrete data forced through the symbolic route
    ex2 = Explorer()

    def run2(ex_):
        nonlocal checks
        lits = _literals()[:200] + ["  a b\t c \n", "", " ", "\x0c\x1cx", "AbC", "\xb5\xdf\xe9"]
        for l in lits:
            s = SStr([ord(c) for c in l])
            pairs = [("split", lambda x: x.split()), ("lstrip", lambda x: x.lstrip()), ("rstrip", lambda x: x.rstrip()), ("strip", lambda x: x.strip()),
                     ("isdigit", lambda x: x.isdigit()), ("isascii", lambda x: x.isascii()), ("startswith", lambda x: x.startswith("pass")),
                     ("endswith", lambda x: x.endswith("\n")), ("split$", lambda x: x.split("$")), ("partition", lambda x: x.partition("%")), ("in", lambda x: "." in x)]
            try:
                pairs.append(("lower", lambda x: x.lower()))
            except EngineError:
                pass
            for name, f in pairs:
                try:
                    got = f(s)
                except EngineError:
                    continue
                want = f(l)
                got = _plainify(got)
                want = _plainify(want)
                checks += 1
                if got != want:
                    raise EngineError("SStr.%s mismatch on %r: %r vs %r" % (name, l, got, want))
        return True
    paths = ex2.explore(run2, want_model=False)
    if any(p.exc is not None for p in paths):
        raise EngineError("SStr self-test raised: %r" % [p.exc for p in paths if p.exc is not None][:1])
    # instrumented vs plain modules on concrete inputs (md5 real)
    F, P = fam(), plain()
    models.ENV.md5_mode = "real"
    try:
        import io
        lines = ["interface Gi0/1\n", " ip address 10.1.2.3 255.255.255.0\n", "username admin password 7 0822455D0A16\n", "snmp-server community secretcomm RO\n",
                 "neighbor 2001:db8::1 remote-as 65001\n", "set system root-authentication encrypted-password \"$1$abcd$0123456789abcdefghijk.\"\n",
                 "password $9$HqfQ1IcrK8n/t0IcvM24aZGi6/t\n", "router bgp 12345 sea-lax01\n", "enable secret 5 $1$wtHI$0rN7R8PKwC30AsCGA77vy.\n", "key 0123456789abcdef\n"]
        outs = []
        for fm in (F, P):
            fa = fm.files.FileAnonymizer(anon_pwd=True, anon_ip=True, salt="saltsalt", sensitive_words=["sea", "lax"], as_numbers=["12345", "65001"],
                                         preserve_suffix_v4=8, preserve_suffix_v6=8)
            o = io.StringIO()
            fa.anonymize_io(io.StringIO("".join(lines)), o)
            outs.append(o.getvalue())
        checks += 1
        if outs[0] != outs[1]:
            raise EngineError("instrumented and plain modules disagree on concrete input:\n%s\n---\n%s" % (outs[0], outs[1]))
        for salt in ("", "x", "_9"):
            for n in (0, 1, 65535, 65536, 4199999999, 4294967295):
                a1 = F.sir.AsNumberAnonymizer([str(n)], salt).anonymize(str(n))
                a2 = P.sir.AsNumberAnonymizer([str(n)], salt).anonymize(str(n))
                checks += 1
                if a1 != a2:
                    raise EngineError("AS number mismatch %r %r" % (a1, a2))
    finally:
        models.ENV.md5_mode = "uninterpreted"
    res["validated"] += checks
    res["finals"] += checks
    res["finals_unsat"] += checks
    res["states"], res["transitions"] = 1, 1
    res["samples"].append(dict(selftest="container/int/str models and instrumented modules vs the real ones", comparisons=checks))


def _plainify(x):
    if isinstance(x, SStr):
        return x.plain()
    if isinstance(x, (list, tuple)):
        return type(x)(_plainify(y) for y in x)
    return x


HARNESSES = {"selftest_sre": selftest_sre, "selftest_models": selftest_models}


def items(tier, seed, sre=True):
    out = [Item("SELF", "selftest_models", dict(seed=seed), budget_s=120, obligation="engine-selftest")]
    if sre:
        out.append(Item("SELF", "selftest_sre", dict(seed=seed, sample=60 if tier == "quick" else 0), budget_s=240 if tier == "quick" else 1500, obligation="engine-selftest"))
    return out
