"""Container models and environment stubs used by the instrumented modules.

Containers are hybrids: concrete hashable keys live in real dict/set objects, symbolic string keys in a list that
is scanned with symbolic equality (each comparison is a solver-decided fork).  They behave like the real thing
for concrete data, so instrumented modules can run their module bodies at import time with no explorer active.
"""
import hashlib
import z3
from bidict import KeyDuplicationError, ValueDuplicationError, KeyAndValueDuplicationError

from . import core
from .core import SStr, SInt, SBytes, EngineError, Atom, CW

_MISSING = object()


class IpKey:
    """container key for an ipaddress address object whose integer value is symbolic (equality = same class and same value)"""

    def __init__(self, obj):
        self.obj, self.cls, self.ip = obj, type(obj), obj._ip


def norm(x):
    """concrete SStr -> real str; address object with a symbolic value -> IpKey"""
    if isinstance(x, SStr) and x.concrete():
        return x.plain()
    if not isinstance(x, (SStr, SInt, IpKey, str, int)) and isinstance(getattr(x, "_ip", None), SInt):
        return IpKey(x)
    return x


def unkey(k):
    return k.obj if isinstance(k, IpKey) else k


def _conc_candidates(conc, key):
    """concrete keys that a symbolic non-string key could equal"""
    if isinstance(key, SInt):
        return [k for k in conc if isinstance(k, int) and not isinstance(k, bool)]
    if isinstance(key, IpKey):
        return [k for k in conc if type(k) is key.cls]
    return []


def key_eq(a, b):
    """python bool (forking): two container keys are equal"""
    a, b = norm(a), norm(b)
    if isinstance(a, IpKey) or isinstance(b, IpKey):
        ca = a.cls if isinstance(a, IpKey) else type(a)
        cb = b.cls if isinstance(b, IpKey) else type(b)
        if ca is not cb:
            return False
        va = a.ip if isinstance(a, IpKey) else getattr(a, "_ip", None)
        vb = b.ip if isinstance(b, IpKey) else getattr(b, "_ip", None)
        if va is None or vb is None:
            return False
        return bool(va == vb)
    if isinstance(a, SStr) or isinstance(b, SStr):
        if not isinstance(a, (str, SStr)) or not isinstance(b, (str, SStr)):
            return False
        A, B = SStr.of(a), SStr.of(b)
        if not A.has_atom() and not B.has_atom() and len(A.cs) != len(B.cs):
            return False
        return core.EX.branch(A.eq_expr(B))
    if isinstance(a, SInt) or isinstance(b, SInt):
        return a == b
    return a == b


def _symbolic_key(k):
    return isinstance(k, (SStr, SInt, IpKey))


class SymDict:
    """dict model (insertion ordered like dict)."""

    def __init__(self, init=None):
        self.conc = {}
        self.sym = []   # [key, value]
        self.order = []  # keys in insertion order (for iteration)
        if init:
            for k, v in (init.items() if hasattr(init, "items") else init):
                self[k] = v

    def _find(self, key):
        key = norm(key)
        if not _symbolic_key(key):
            try:
                if key in self.conc:
                    return ("c", key)
            except TypeError:
                raise EngineError("unhashable key")
            for ent in self.sym:
                if key_eq(ent[0], key):
                    return ("s", ent)
            return None
        # symbolic key: one disjunction over same-length concrete keys first, then pick which
        cands = [k for k in self.conc if isinstance(k, str) and isinstance(key, SStr) and not key.has_atom() and len(k) == len(key.cs)]
        if cands:
            if core.EX.branch(z3.Or(*[key.eq_expr(k) for k in cands])):
                for k in cands[:-1]:
                    if core.EX.branch(key.eq_expr(k)):
                        return ("c", k)
                return ("c", cands[-1])
        for k in _conc_candidates(self.conc, key):
            if key_eq(k, key):
                return ("c", k)
        for ent in self.sym:
            if key_eq(ent[0], key):
                return ("s", ent)
        return None

    def __contains__(self, key):
        key = norm(key)
        if isinstance(key, SStr) and not key.has_atom():
            # membership only: one disjunction over the same-length concrete keys (no need to know which one)
            cands = [k for k in self.conc if isinstance(k, str) and len(k) == len(key.cs)]
            if cands:
                if len(key.cs) == 1:
                    if core.char_in(key.cs[0], frozenset(ord(k) for k in cands if ord(k) < 256)):
                        return True
                elif core.EX.branch(z3.Or(*[key.eq_expr(k) for k in cands])):
                    return True
            for ent in self.sym:
                if key_eq(ent[0], key):
                    return True
            return False
        return self._find(key) is not None

    def get(self, key, default=None):
        f = self._find(key)
        if f is None:
            return default
        return self.conc[f[1]] if f[0] == "c" else f[1][1]

    def __getitem__(self, key):
        f = self._find(key)
        if f is None:
            raise KeyError(norm(key) if not _symbolic_key(norm(key)) else "<symbolic key>")
        return self.conc[f[1]] if f[0] == "c" else f[1][1]

    def __setitem__(self, key, val):
        key = norm(key)
        f = self._find(key)
        if f is None:
            if _symbolic_key(key):
                self.sym.append([key, val])
            else:
                self.conc[key] = val
            self.order.append(key)
        elif f[0] == "c":
            self.conc[f[1]] = val
        else:
            f[1][1] = val

    def setdefault(self, key, default=None):
        f = self._find(key)
        if f is None:
            self[key] = default
            return default
        return self.conc[f[1]] if f[0] == "c" else f[1][1]

    def __len__(self):
        return len(self.conc) + len(self.sym)

    def __bool__(self):
        return len(self) > 0

    def keys(self):
        return [unkey(k) for k in self.order]

    def __iter__(self):
        return iter([unkey(k) for k in self.order])

    def items(self):
        out = []
        for k in self.order:
            if _symbolic_key(k):
                for ent in self.sym:
                    if ent[0] is k:
                        out.append((unkey(k), ent[1]))
                        break
            else:
                out.append((k, self.conc[k]))
        return out

    def values(self):
        return [v for _, v in self.items()]

    def update(self, other=(), **kw):
        for k, v in (other.items() if hasattr(other, "items") else other):
            self[k] = v
        for k, v in kw.items():
            self[k] = v

    def __repr__(self):
        return "SymDict(%r)" % (self.items(),)


class SymSet:
    """set model. `base` (optional) is a real set shared by reference (never mutated by the model unless asked)."""
    is_symset = True

    def __init__(self, init=(), base=None):
        self.conc = base if base is not None else set()
        self.sym = []
        self._bylen = None
        for x in init:
            self.add(x)

    def _index(self):
        if self._bylen is None:
            d = {}
            for w in self.conc:
                if isinstance(w, str):
                    d.setdefault(len(w), []).append(w)
            self._bylen = d
        return self._bylen

    def __contains__(self, x):
        x = norm(x)
        if not _symbolic_key(x):
            try:
                if x in self.conc:
                    return True
            except TypeError:
                raise EngineError("unhashable element")
            for y in self.sym:
                if key_eq(y, x):
                    return True
            return False
        if isinstance(x, SStr) and not x.has_atom():
            cands = self._index().get(len(x.cs), [])
            if cands and core.EX.branch(z3.Or(*[x.eq_expr(w) for w in cands])):
                return True
        for k in _conc_candidates(self.conc, x):
            if key_eq(k, x):
                return True
        for y in self.sym:
            if key_eq(y, x):
                return True
        return False

    def add(self, x):
        x = norm(x)
        if x in self:
            return
        if _symbolic_key(x):
            self.sym.append(x)
        else:
            self.conc.add(x)
            self._bylen = None

    def update(self, *others):
        for o in others:
            # adding elements to a set is insensitive to the order in which they arrive: no order exploration
            for x in list(o.elements() if getattr(o, "is_symset", False) else o):
                self.add(x)

    def discard(self, x):
        x = norm(x)
        if _symbolic_key(x) or self.sym:
            raise EngineError("set.discard with symbolic elements")
        self.conc.discard(x)
        self._bylen = None

    def remove(self, x):
        if x not in self:
            raise KeyError(x)
        self.discard(x)

    def clear(self):
        self.conc = set()
        self.sym = []
        self._bylen = None

    def copy(self):
        c = SymSet()
        c.conc = set(self.conc)
        c.sym = list(self.sym)
        return c

    @staticmethod
    def _elements_of(o):
        return list(o.elements() if getattr(o, "is_symset", False) else o)

    def union(self, *others):
        c = self.copy()
        c.update(*others)
        return c

    __or__ = union

    def __ior__(self, other):
        self.update(other)
        return self

    def intersection(self, *others):
        c = SymSet()
        for x in self.elements():
            if all((x in o) if getattr(o, "is_symset", False) else (x in SymSet(o)) for o in others):
                c.add(x)
        return c

    __and__ = intersection

    def difference(self, *others):
        c = SymSet()
        for x in self.elements():
            if not any((x in o) if getattr(o, "is_symset", False) else (x in SymSet(o)) for o in others):
                c.add(x)
        return c

    __sub__ = difference

    def issubset(self, other):
        o = other if getattr(other, "is_symset", False) else SymSet(other)
        return all(x in o for x in self.elements())

    __le__ = issubset

    def issuperset(self, other):
        return all(x in self for x in SymSet._elements_of(other))

    __ge__ = issuperset

    def isdisjoint(self, other):
        return not any(x in self for x in SymSet._elements_of(other))

    def __eq__(self, other):
        if not (getattr(other, "is_symset", False) or isinstance(other, (set, frozenset))):
            return NotImplemented
        return self.issubset(other) and self.issuperset(other)

    __hash__ = None

    def __len__(self):
        return len(self.conc) + len(self.sym)

    def __bool__(self):
        return len(self) > 0

    def elements(self):
        """deterministic base order (sorted concrete, then symbolic in insertion order)"""
        try:
            c = sorted(self.conc)
        except TypeError:
            c = list(self.conc)
        return c + [unkey(k) for k in self.sym]

    def __iter__(self):
        return iter(iter_any(self))

    def __repr__(self):
        return "SymSet(%d concrete, %r)" % (len(self.conc), self.sym)


# Sets up to this size have every iteration order explored; larger ones are iterated in one fixed (sorted) order.
SET_ORDER_LIMIT = 4
set_order_skipped = [0]


def _perm(items, idx):
    items = list(items)
    out = []
    for k in range(len(items), 0, -1):
        idx, r = divmod(idx, k)
        out.append(items.pop(r))
    return out


def iter_any(x):
    """Iteration used by instrumented `for` loops / comprehensions / join.

    Iterating a set is an environment choice (hash seed): every permutation is explored for small sets.
    """
    if isinstance(x, (set, frozenset)) or getattr(x, "is_symset", False):
        elems = x.elements() if getattr(x, "is_symset", False) else _sorted_or_list(x)
        n = len(elems)
        if n <= 1 or not core.active():
            return elems
        if n > SET_ORDER_LIMIT:
            set_order_skipped[0] += 1
            return elems
        # CPython iterates an unmodified set object in the same order every time: one environment choice per
        # (set object, size), remembered for the rest of the path
        memo = core.EX.path_data.setdefault("set_orders", {})
        key = (id(x), n)
        ent = memo.get(key)
        if ent is None or ent[0] is not x:
            f = 1
            for k in range(2, n + 1):
                f *= k
            ent = memo[key] = (x, core.EX.choice(f, "set-order"))
        return _perm(elems, ent[1])
    return x


def _sorted_or_list(s):
    try:
        return sorted(s)
    except TypeError:
        return list(s)


class SymBidict:
    """Model of bidict.bidict with the default duplication policy (key: drop old, value: raise).

    Entries are [key, val] lists; per column, concrete strings are indexed by a real dict and every entry is
    bucketed by the (concrete) length of its text, so a lookup only compares against same-length candidates."""

    extra_len = None   # harness hook: a symbolic number of further (irrelevant, invariant-satisfying) entries reported by len()

    def __init__(self, init=None):
        self.ents = []
        self.cmap = ({}, {})      # column -> {concrete str: entry}
        self.bucket = ({}, {})    # column -> {length or None: [entries with a symbolic text in that column]}
        if init:
            for k, v in (init.items() if hasattr(init, "items") else init):
                self._put(k, v, 0)

    @staticmethod
    def _len(x):
        if isinstance(x, str):
            return len(x)
        if isinstance(x, SStr) and not x.has_atom():
            return len(x.cs)
        return None

    def _index(self, ent, col):
        x = ent[col]
        if isinstance(x, str):
            self.cmap[col][x] = ent
        else:
            self.bucket[col].setdefault(self._len(x), []).append(ent)

    def _unindex(self, ent, col):
        x = ent[col]
        if isinstance(x, str):
            del self.cmap[col][x]
        else:
            self.bucket[col][self._len(x)].remove(ent)

    def _find(self, x, col):
        x = norm(x)
        if isinstance(x, str):
            e = self.cmap[col].get(x)
            if e is not None:
                return e
            for ent in self.bucket[col].get(len(x), ()):
                if core.EX.branch(ent[col].eq_expr(x)):
                    return ent
            return None
        if not isinstance(x, SStr):
            for ent in self.ents:
                if key_eq(ent[col], x):
                    return ent
            return None
        n = self._len(x)
        if n is None:
            for ent in self.ents:
                if key_eq(ent[col], x):
                    return ent
            return None
        cands = [k for k in self.cmap[col] if len(k) == n] if len(self.cmap[col]) < 64 else \
            [k for k in self.cmap[col] if len(k) == n]
        for k in cands:
            if core.EX.branch(x.eq_expr(k)):
                return self.cmap[col][k]
        for ent in self.bucket[col].get(n, ()):
            if core.EX.branch(x.eq_expr(ent[col])):
                return ent
        return None

    def _put(self, key, val, col):
        """col=0: fwd[key]=val ; col=1: inv[key]=val (i.e. fwd[val]=key)"""
        key, val = norm(key), norm(val)
        ke = self._find(key, col)
        ve = self._find(val, 1 - col)
        if ke is not None and ve is not None:
            if ke is ve:
                return
            raise KeyAndValueDuplicationError(key, val)
        if ve is not None:
            raise ValueDuplicationError(val)
        if ke is not None:
            self._unindex(ke, 1 - col)
            ke[1 - col] = val
            self._index(ke, 1 - col)
            return
        ent = [key, val] if col == 0 else [val, key]
        self.ents.append(ent)
        self._index(ent, 0)
        self._index(ent, 1)

    def clone(self):
        c = SymBidict()
        for k, v in self.ents:
            ent = [k, v]
            c.ents.append(ent)
            c._index(ent, 0)
            c._index(ent, 1)
        return c

    def get(self, key, default=None):
        e = self._find(key, 0)
        return default if e is None else e[1]

    def __getitem__(self, key):
        e = self._find(key, 0)
        if e is None:
            raise KeyError(key)
        return e[1]

    def __contains__(self, key):
        return self._find(key, 0) is not None

    def __setitem__(self, key, val):
        self._put(key, val, 0)

    def __len__(self):
        return len(self.ents)

    def items(self):
        return [(k, v) for k, v in self.ents]

    def keys(self):
        return [k for k, _ in self.ents]

    def values(self):
        return [v for _, v in self.ents]

    def __iter__(self):
        return iter(self.keys())

    @property
    def inv(self):
        return _BidictInv(self)

    inverse = inv


class _BidictInv:
    def __init__(self, b):
        self.b = b

    def get(self, key, default=None):
        e = self.b._find(key, 1)
        return default if e is None else e[0]

    def __getitem__(self, key):
        e = self.b._find(key, 1)
        if e is None:
            raise KeyError(key)
        return e[0]

    def __contains__(self, key):
        return self.b._find(key, 1) is not None

    def __setitem__(self, key, val):
        self.b._put(key, val, 1)

    def __len__(self):
        return len(self.b.ents)

    def items(self):
        return [(v, k) for k, v in self.b.ents]

    @property
    def inv(self):
        return self.b


# --------------------------------------------------------------------------- environment
class Env:
    """Per-path environment state (reset by the explorer at the start of every path)."""

    def __init__(self):
        self.md5_mode = "uninterpreted"   # or "real"
        self.reset()

    def reset(self):
        self.md5_calls = []     # (SStr input, digest BV128)
        self.log = []           # (level, msg, args)
        self.rand_n = 0
        self.sha_n = 0
        self.tag = ""           # distinguishes two self-composed runs' environment draws


ENV = Env()
core.GLOBAL_RESETTERS.append(ENV.reset)
LEVELS = {"DEBUG": 10, "INFO": 20, "WARNING": 30, "ERROR": 40, "CRITICAL": 50}


_HEX_CACHE = {}
_MD5_UF = {}


def md5_uf(nchars):
    """The keyed hash as an uninterpreted function of the input text (one symbol per input length).

    Every claim proved with it holds for *every* function from texts to 128-bit digests -- hence for every salt.
    """
    f = _MD5_UF.get(nchars)
    if f is None:
        if nchars == 0:
            f = _MD5_UF[0] = z3.BitVec("md5_0", 128)
        else:
            f = _MD5_UF[nchars] = z3.Function("md5_%d" % nchars, z3.BitVecSort(CW * nchars), z3.BitVecSort(128))
    return f


def md5_term(data):
    """digest term for the SStr `data`"""
    n = len(data.cs)
    f = md5_uf(n)
    if n == 0:
        return f
    if core.active() and core.EX.known:
        parts = [core._cbv(core.EX.canon_char(c)) for c in data.cs]
    else:
        parts = [core._cbv(c) for c in data.cs]
    return f(z3.simplify(z3.Concat(*parts)) if n > 1 else parts[0])


class SDigest:
    """md5().digest() of the uninterpreted hash: a 16-byte sequence whose elements are symbolic integers 0..255"""

    def __init__(self, dig):
        self.dig = dig

    def __len__(self):
        return 16

    def _byte(self, i):
        return SInt.unsigned(z3.Extract(127 - 8 * i, 120 - 8 * i, self.dig))

    def __getitem__(self, i):
        if isinstance(i, slice):
            return [self._byte(j) for j in range(*i.indices(16))]
        if isinstance(i, SInt):
            raise EngineError("digest indexed by a symbolic integer")
        if i < 0:
            i += 16
        if not 0 <= i < 16:
            raise IndexError("index out of range")
        return self._byte(i)

    def __iter__(self):
        return iter([self._byte(j) for j in range(16)])

    def hex(self):
        return SStr(core.LazyChars(32, lambda i: core.hex_char_of_nibble(z3.Extract(127 - 4 * i, 124 - 4 * i, self.dig))))


class Md5Stub:
    """hashlib.md5 stand-in: the digest is an uninterpreted function of the input bytes."""

    def __init__(self, data=b""):
        if ENV.md5_mode == "real" or not core.active():
            if isinstance(data, SStr):
                if not data.concrete():
                    raise EngineError("symbolic input to md5 in real mode")
                data = data.plain().encode("utf-8")
            self._real = hashlib.md5(data)
            return
        self._real = None
        if isinstance(data, (bytes, bytearray)):
            data = SStr.of(data.decode("utf-8"))
        elif isinstance(data, str):
            raise TypeError("Strings must be encoded before hashing")
        elif not isinstance(data, SStr):
            raise EngineError("md5 of %s" % type(data).__name__)
        if data.has_atom():
            raise EngineError("md5 of a rendered symbolic value")
        self.dig = md5_term(data)
        ENV.md5_calls.append((data, self.dig))

    def hexdigest(self):
        if self._real is not None:
            return self._real.hexdigest()
        key = self.dig.get_id()
        ent = _HEX_CACHE.get(key)
        if ent is None:
            dig = self.dig
            if len(_HEX_CACHE) > 200000:
                _HEX_CACHE.clear()
            ent = _HEX_CACHE[key] = (dig, core.LazyChars(32, lambda i: core.hex_char_of_nibble(z3.Extract(127 - 4 * i, 124 - 4 * i, dig))))
        return SStr(ent[1])

    def digest(self):
        if self._real is not None:
            return self._real.digest()
        return SDigest(self.dig)

    def update(self, data):
        raise EngineError("md5().update()")


def model_md5(model, recorder=None):
    """A concrete md5 test double realising the solver model's interpretation of the hash symbols.
    Used to replay a path / counterexample on the un-instrumented code."""
    class _M:
        def __init__(self, data=b""):
            text = data.decode("utf-8")
            s = SStr([ord(c) for c in text])
            v = model.eval(md5_term(s), model_completion=True).as_long()
            self._hex = "%032x" % v
            if recorder is not None:
                recorder[text] = self._hex

        def hexdigest(self):
            return self._hex

        def digest(self):
            return bytes.fromhex(self._hex)
    return _M


class LoggingStub:
    """`logging` stand-in: records (level, msg, args); never formats."""
    DEBUG, INFO, WARNING, ERROR, CRITICAL = 10, 20, 30, 40, 50

    def _rec(self, lvl, msg, args):
        ENV.log.append((lvl, msg, args))

    def debug(self, msg, *a, **k): self._rec(10, msg, a)
    def info(self, msg, *a, **k): self._rec(20, msg, a)
    def warning(self, msg, *a, **k): self._rec(30, msg, a)
    warn = warning
    def error(self, msg, *a, **k): self._rec(40, msg, a)
    def exception(self, msg, *a, **k): self._rec(40, msg, a)
    def critical(self, msg, *a, **k): self._rec(50, msg, a)
    def log(self, lvl, msg, *a, **k): self._rec(lvl, msg, a)

    def getLogger(self, name=None):
        return self

    def getLevelName(self, x):
        import logging
        return logging.getLevelName(x)

    def basicConfig(self, **kw):
        ENV.log.append((0, "basicConfig", (kw,)))

    def disable(self, *a):
        pass


class RandomStub:
    """`random` stand-in: every draw is an arbitrary value of its range."""

    def choice(self, seq):
        seq = norm(seq)
        if isinstance(seq, str) and seq:
            if not core.active():
                return seq[0]
            c = z3.BitVec("env_rand%s!%d" % (ENV.tag, ENV.rand_n), CW)
            ENV.rand_n += 1
            core.EX.assume(core.in_set_expr(c, {ord(x) for x in seq}))
            return SStr([c])
        raise EngineError("random.choice of %s" % type(seq).__name__)

    def __getattr__(self, name):
        raise EngineError("random.%s is not modelled" % name)


HASH64 = frozenset(ord(c) for c in "./0123456789ABCDEFGHIJKLMNOPQRSTUVWXYZabcdefghijklmnopqrstuvwxyz")


class Sha512CryptStub:
    """passlib sha512_crypt stand-in.  With no salt given passlib draws a random 16-char salt: the stub returns
    `$6$<16 arbitrary salt chars>$<86 arbitrary hash chars>` (fresh environment symbols per call)."""

    def __init__(self, real, settings=None):
        self.real = real
        self.settings = settings or {}

    def using(self, **kw):
        s = dict(self.settings)
        s.update(kw)
        return Sha512CryptStub(self.real, s)

    def hash(self, secret):
        if isinstance(secret, (SStr, SInt)):
            raise EngineError("symbolic secret reached passlib")
        rounds = self.settings.get("rounds", 5000)  # passlib omits rounds=5000 from the string
        if isinstance(rounds, SInt):
            # symbolic cost parameter: passlib's range check (1000..999999999) decides between ValueError and a hash whose
            # body is an environment value (it depends on the rounds); the rendered parameter stays symbolic
            if core.EX.branch(rounds._cmp_expr(1000, "lt")):
                return self.real.using(**dict(self.settings, rounds=999)).hash(secret)
            if core.EX.branch(rounds._cmp_expr(999999999, "gt")):
                return self.real.using(**dict(self.settings, rounds=10 ** 9)).hash(secret)
            if not core.EX.branch(rounds._cmp_expr(5000, "ne")):
                return Sha512CryptStub(self.real, dict(self.settings, rounds=5000)).hash(secret)
        elif "salt" in self.settings or not core.active():
            return self.real.using(**self.settings).hash(secret)
        n = ENV.sha_n
        ENV.sha_n += 1
        cs = [ord(c) for c in "$6$"]
        if isinstance(rounds, SInt):
            cs += [ord(c) for c in "rounds="] + list(core.sym_str(rounds).cs) + [ord("$")]
        elif rounds != 5000:
            cs += [ord(c) for c in "rounds=%d$" % rounds]
        salt = self.settings.get("salt")
        for i in range(16):
            if salt is not None:
                if i < len(salt):
                    cs.append(ord(salt[i]))
                continue
            c = z3.BitVec("env_sha_salt%s!%d_%d" % (ENV.tag, n, i), CW)
            core.EX.assume(core.in_set_expr(c, HASH64))
            cs.append(c)
        cs.append(ord("$"))
        for i in range(86):
            c = z3.BitVec("env_sha_hash%s!%d_%d" % (ENV.tag, n, i), CW)
            core.EX.assume(core.in_set_expr(c, HASH64))
            cs.append(c)
        return SStr(cs)

    def __getattr__(self, name):
        return getattr(self.real, name)


class ConcreteOnly:
    """Wrapper around a real library object: calls with concrete arguments go to the real thing,
    a proxy argument is refused (EngineError)."""

    def __init__(self, real, name):
        self._real, self._name = real, name

    def __getattr__(self, attr):
        v = getattr(self._real, attr)
        if callable(v):
            def f(*a, **k):
                for x in list(a) + list(k.values()):
                    if isinstance(x, (SStr, SInt)):
                        raise EngineError("symbolic value reached %s.%s" % (self._name, attr))
                r = v(*a, **k)
                if type(r) is type(self._real) or hasattr(r, "hash") and not isinstance(r, (str, bytes)):
                    return ConcreteOnly(r, self._name)
                return r
            return f
        return v


def b2a_hex_stub(data, *a):
    from binascii import b2a_hex
    if isinstance(data, SStr):
        if data.concrete():
            return b2a_hex(data.plain().encode("latin-1"), *a)
        raise EngineError("b2a_hex of symbolic bytes")
    return b2a_hex(data, *a)
