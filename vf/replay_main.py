"""Runs one replay file against the un-instrumented netconan from $VF_REPO (fresh interpreter, no z3, no import hook)."""
import json
import os
import sys

sys.path.insert(0, os.environ.get("VF_REPO", "/repo"))
sys.path.insert(0, os.path.dirname(os.path.dirname(os.path.abspath(__file__))))
import logging  # noqa: E402
logging.disable(logging.CRITICAL)
from vf import replayers  # noqa: E402


def main(path):
    spec = json.load(open(path))
    rp = spec["replay"]
    fam = replayers.PlainFamily()
    fn = replayers.REPLAYERS[rp["replayer"]]
    r = fn(fam, rp["args"])
    print("REPLAY-RESULT " + json.dumps(r, default=str))
    return 0


if __name__ == "__main__":
    sys.exit(main(sys.argv[1]))
