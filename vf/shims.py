"""Run-time helpers the instrumented code calls (`_sx_*`) and the proxy-aware builtins injected into it.

Every helper computes exactly what the original construct computes when no proxy is involved.
"""
import builtins
import re
import z3

from . import core, models, symre
from .core import SStr, SInt, SBytes, Atom, EngineError, CW
from .models import SymDict, SymSet, SymBidict, norm, iter_any

PROXY = (SStr, SInt)


# --------------------------------------------------------------------------- builtin replacements
class _IntMeta(type):
    def __instancecheck__(cls, x):
        return isinstance(x, (int, SInt))

    def __subclasscheck__(cls, c):
        return issubclass(c, int)

    def __call__(cls, *a, **k):
        if k:
            return core.sym_int(*a, **k)
        return core.sym_int(*a)

    def __repr__(cls):
        return "<class 'int'>"

    def __eq__(cls, o):
        return o is cls or o is int

    def __hash__(cls):
        return hash(int)


class sx_int(metaclass=_IntMeta):
    @staticmethod
    def from_bytes(it, byteorder="big", *, signed=False):
        items = list(it)
        if all(isinstance(i, int) for i in items):
            return int.from_bytes(items, byteorder, signed=signed)
        if signed or byteorder != "big":
            raise EngineError("int.from_bytes(little/signed) on symbolic bytes")
        acc = 0
        for b in items:
            if isinstance(b, SInt) and (b.lo < 0 or b.hi > 255):
                if core.EX.is_sat(z3.Or(b._cmp_expr(0, "lt"), b._cmp_expr(255, "gt"))):
                    raise EngineError("byte out of range")
                b = SInt.mk(b.e, max(b.lo, 0), min(b.hi, 255))   # proved within 0..255 on this path
            acc = (acc << 8) | b
        return acc


class _StrMeta(type):
    def __instancecheck__(cls, x):
        return isinstance(x, (str, SStr)) and not isinstance(x, SBytes)

    def __subclasscheck__(cls, c):
        return issubclass(c, str)

    def __call__(cls, *a, **k):
        if len(a) == 1 and not k:
            return core.sym_str(a[0])
        return str(*a, **k)

    def __repr__(cls):
        return "<class 'str'>"

    def __eq__(cls, o):
        return o is cls or o is str

    def __hash__(cls):
        return hash(str)


class sx_str(metaclass=_StrMeta):
    join = str.join
    format = str.format
    lower = str.lower
    maketrans = str.maketrans


def sx_len(x):
    """len() that lets a memo model report an arbitrary larger size (see SymBidict.extra_len)"""
    extra = getattr(x, "extra_len", None)
    if extra is not None:
        return builtins.len(x) + extra
    return builtins.len(x)


def _sx_mkdict(init=None, **kw):
    if init is None and not kw:
        return SymDict()
    d = SymDict()
    if init is not None:
        d.update(init)
    if kw:
        d.update(kw)
    return d


def _sx_mkset(init=()):
    return SymSet(iter_plain(init))


def iter_plain(x):
    """iteration without order exploration (used where the result is itself unordered)"""
    if getattr(x, "is_symset", False):
        return x.elements()
    return x


class _SetMeta(type):
    def __instancecheck__(cls, x):
        return isinstance(x, (set, SymSet))

    def __call__(cls, init=()):
        return _sx_mkset(init)


class sx_set(metaclass=_SetMeta):
    pass


class _FrozenSetMeta(type):
    def __instancecheck__(cls, x):
        return isinstance(x, frozenset)

    def __call__(cls, init=()):
        return _sx_mkset(init)      # the model does not enforce immutability


class sx_frozenset(metaclass=_FrozenSetMeta):
    pass


class _DictMeta(type):
    def __instancecheck__(cls, x):
        return isinstance(x, (dict, SymDict))

    def __call__(cls, *a, **k):
        return _sx_mkdict(*a, **k)


class sx_dict(metaclass=_DictMeta):
    fromkeys = dict.fromkeys


def sx_sorted(x, **kw):
    return sorted(iter_plain(x), **kw)


def sx_list(x=()):
    return list(iter_any(x))


def sx_tuple(x=()):
    return tuple(iter_any(x))


def sx_hex(x):
    if isinstance(x, SInt):
        return "0x" + core.hex_of(x)
    return hex(x)


def sx_format(x, spec=""):
    if isinstance(x, SInt) or isinstance(x, SStr) or _needs_sym(x):
        return _sx_fmtval(x, -1, spec)
    return format(x, spec)


def sx_bin(x):
    if isinstance(x, SInt):
        if x.lo < 0:
            raise EngineError("bin() of a possibly negative symbolic integer")
        n = x.bit_length()
        return SStr.mk([ord("0"), ord("b")] + list(SStr.of(core.bits_of(x, max(n, 1))).cs))
    return bin(x)


def sx_hash(x):
    """hash() of a str / bytes depends on the interpreter's hash seed: an environment value (an arbitrary 64-bit integer that
    is a function of the text within one run and unrelated between two compared runs)"""
    if isinstance(x, PROXY):
        raise EngineError("hash() of a symbolic value")
    if isinstance(x, (str, bytes)) and core.active():
        raw = x.encode("utf-8", "surrogatepass") if isinstance(x, str) else x
        v = z3.BitVec("env_hash%s[%s]" % (models.ENV.tag, raw.hex()), 64)
        return SInt(v, -(1 << 63), (1 << 63) - 1, 64)
    return hash(x)


def sx_id(obj):
    """id() is an environment value: an arbitrary integer, equal for the same live object, different for two objects that are
    alive at the same time - and possibly equal to the id of an object that has already been freed (address reuse)."""
    if not core.active():
        return id(obj)
    import weakref
    reg = core.EX.path_data.setdefault("ids", [])
    for ref, sym, bv in reg:
        if ref() is obj:
            return sym
    n = len(reg)
    v = z3.BitVec("env_id%s!%d" % (models.ENV.tag, n), 48)
    for ref, sym, bv in reg:
        if ref() is not None:
            core.EX.assume(v != bv)
    try:
        ref = weakref.ref(obj)
    except TypeError:
        ref = (lambda o: (lambda: o))(obj)     # not weak-referenceable: treated as alive for the rest of the path
    s_ = SInt.unsigned(v)
    reg.append((ref, s_, v))
    return s_


BUILTINS = {
    "id": sx_id, "frozenset": sx_frozenset, "format": sx_format, "bin": sx_bin, "int": sx_int, "str": sx_str, "chr": core.sym_chr, "ord": core.sym_ord, "set": sx_set, "dict": sx_dict,
    "sorted": sx_sorted, "hex": sx_hex, "hash": sx_hash, "len": sx_len,
}


# --------------------------------------------------------------------------- formatting
def _opaque():
    return SStr([Atom("opaque", None)])


def _render_arg_s(a):
    """%s / {} rendering of one argument -> str | SStr"""
    if isinstance(a, BaseException):
        if any(isinstance(x, PROXY) for x in a.args):
            return _opaque()
        return str(a)
    r = core.sym_str(a)
    return r


def _fmt_spec_int(a, spec):
    """format(a, spec) for symbolic int a; supports 0<width>b, x, d"""
    m = re.fullmatch(r"0(\d+)b", spec)
    if m:
        return core.bits_of(a, int(m.group(1)))
    if spec == "b":
        return core.bits_of(a, max(a.bit_length(), 1)) if not isinstance(a, int) else format(a, "b")
    m = re.fullmatch(r"0(\d+)x", spec)
    if m:
        return core.hex_of(a, int(m.group(1)))
    if spec == "x":
        return core.hex_of(a)
    if spec in ("", "d"):
        return core.sym_str(a)
    raise EngineError("format spec %r on a symbolic integer" % spec)


def _has_sym_ip(x):
    return isinstance(getattr(x, "_ip", None), SInt)


def _needs_sym(x):
    return isinstance(x, PROXY) or _has_sym_ip(x) or (isinstance(x, BaseException) and any(isinstance(y, PROXY) for y in x.args))


def sym_format(fmt, args, kw):
    """str.format with proxy arguments (auto-numbered / numbered / named fields, optional :spec)."""
    out = []
    i = 0
    auto = 0
    n = len(fmt)
    while i < n:
        ch = fmt[i]
        if ch == "{":
            if fmt[i:i + 2] == "{{":
                out.append(ord("{"))
                i += 2
                continue
            depth, j = 0, i
            while True:
                j += 1
                if j >= n:
                    raise ValueError("expected '}' before end of string")
                if fmt[j] == "{":
                    depth += 1
                elif fmt[j] == "}":
                    if depth == 0:
                        break
                    depth -= 1
            field = fmt[i + 1:j]
            if "!" in field:
                raise EngineError("converted format field")
            name, _, spec = field.partition(":")
            if "{" in spec:
                # nested replacement fields in the spec (e.g. {:0{width}b}): only concrete values may be substituted
                def _sub(mo):
                    key = mo.group(1)
                    v = kw[key] if not key.isdigit() and key != "" else args[int(key)] if key.isdigit() else None
                    if key == "":
                        raise EngineError("auto-numbered nested format field")
                    if isinstance(v, PROXY):
                        raise EngineError("symbolic value in a nested format field")
                    return str(v)
                spec = re.sub(r"\{(\w*)\}", _sub, spec)
            if name == "":
                a = args[auto]
                auto += 1
            elif name.isdigit():
                a = args[int(name)]
            else:
                if "." in name or "[" in name:
                    raise EngineError("attribute/index format field")
                a = kw[name]
            if isinstance(a, SInt):
                r = _fmt_spec_int(a, spec)
            elif isinstance(a, SStr) or _needs_sym(a):
                if spec:
                    raise EngineError("format spec on a symbolic string")
                r = _render_arg_s(a)
            else:
                r = format(a, spec)
            out.extend(SStr.of(r).cs)
            i = j + 1
        elif ch == "}":
            if fmt[i:i + 2] == "}}":
                out.append(ord("}"))
                i += 2
                continue
            raise ValueError("Single '}' encountered in format string")
        else:
            out.append(ord(ch))
            i += 1
    return SStr.mk(out)


_PCT = re.compile(r"%(?:\((\w+)\))?([#0\- +]*)(\d+)?(?:\.(\d+))?([sdrxXi%])")


def _sx_mod(fmt, args):
    if not isinstance(fmt, (str, SStr)):
        return fmt % args  # passthrough
    if isinstance(fmt, SStr):
        raise EngineError("%-formatting with a symbolic template")
    tup = args if isinstance(args, tuple) else (args,)
    if not any(_needs_sym(x) for x in tup):
        return fmt % args  # passthrough
    out = []
    pos = 0
    k = 0
    for m in _PCT.finditer(fmt):
        out.extend(ord(c) for c in fmt[pos:m.start()])
        pos = m.end()
        name, flags, width, prec, conv = m.groups()
        if conv == "%":
            out.append(37)
            continue
        if name:
            raise EngineError("%(name)s formatting")
        a = tup[k]
        k += 1
        if not _needs_sym(a):
            out.extend(ord(c) for c in (("%" + flags + (width or "") + ("." + prec if prec else "") + conv) % (a,)))
            continue
        if flags or width or prec:
            raise EngineError("%-format flags on a symbolic value")
        if conv in "di" and isinstance(a, SInt):
            out.extend(core.sym_str(a).cs)
        elif conv == "x" and isinstance(a, SInt):
            out.extend(SStr.of(core.hex_of(a)).cs)
        elif conv == "s":
            out.extend(SStr.of(_render_arg_s(a)).cs)
        elif conv == "r":
            out.extend(_opaque().cs)
        else:
            raise EngineError("%%%s of a symbolic value" % conv)
    out.extend(ord(c) for c in fmt[pos:])
    return SStr.mk(out)


def _sx_fmtval(v, conv, spec):
    """one {value!conv:spec} of an f-string"""
    if isinstance(v, SInt):
        if conv != -1:
            raise EngineError("f-string conversion of a symbolic integer")
        return _fmt_spec_int(v, spec or "")
    if isinstance(v, SStr) or _needs_sym(v):
        if conv == 114:
            return _opaque()
        if spec:
            raise EngineError("f-string spec on a symbolic string")
        return _render_arg_s(v)
    if conv == 114:
        v = repr(v)
    elif conv == 115:
        v = str(v)
    elif conv == 97:
        v = ascii(v)
    return format(v, spec or "")


def _sx_fstr(*parts):
    out = []
    for p in parts:
        out.extend(SStr.of(p).cs)
    return SStr.mk(out)


# --------------------------------------------------------------------------- table lookups
# Provenance of characters produced by indexing a concrete list with a symbolic integer: ast id -> (term, list, index).
# Looking such a character up in a concrete dict is the composition of two tables; composing them first (and returning
# the index itself when the composition is the identity, as for ALPHA_NUM[NUM_ALPHA[i]]) spares the solver two nested
# 65-way if-then-else chains.  Purely a change of representation: the value is the same function of the index.
CHAR_SRC = {}


def _table_lookup(keys_vals, key, missing):
    """keys_vals: list of (concrete key, value); key: symbolic SStr. One fork on membership, ITE on the value."""
    if len(key.cs) == 1 and not isinstance(key.cs[0], (int, Atom)):
        src = CHAR_SRC.get(key.cs[0].get_id())
        if src is not None:
            _, lst, idx = src
            d = dict((k, v) for k, v in keys_vals if isinstance(k, str))
            if all(ch in d for ch in lst):
                comp = [d[ch] for ch in lst]
                if all(isinstance(v, int) and not isinstance(v, bool) for v in comp):
                    if comp == list(range(len(lst))):
                        return idx
                    return _list_lookup(comp, idx)
    cands = [(k, v) for k, v in keys_vals if isinstance(k, str) and len(k) == len(key.cs)]
    if not cands:
        return missing()
    if len(key.cs) == 1:
        present = core.char_in(key.cs[0], frozenset(ord(k) for k, _ in cands if ord(k) < 256))
    else:
        present = core.EX.branch(z3.Or(*[key.eq_expr(k) for k, _ in cands]))
    if not present:
        return missing()
    vals = [v for _, v in cands]
    if all(isinstance(v, int) and not isinstance(v, bool) for v in vals):
        lo, hi = min(vals), max(vals)
        w = core._fit(lo, hi)
        e = z3.BitVecVal(vals[-1], w)
        for k, v in reversed(cands[:-1]):
            e = z3.If(key.eq_expr(k), z3.BitVecVal(v, w), e)
        return SInt.mk(e, lo, hi)
    if all(isinstance(v, str) and len(v) == 1 and ord(v) < 256 for v in vals):
        e = z3.BitVecVal(ord(vals[-1]), CW)
        for k, v in reversed(cands[:-1]):
            e = z3.If(key.eq_expr(k), z3.BitVecVal(ord(v), CW), e)
        return SStr.mk([core.register_char_set(z3.simplify(e), [ord(v) for v in vals])])
    for k, v in cands[:-1]:
        if core.EX.branch(key.eq_expr(k)):
            return v
    return cands[-1][1]


_LL_MEMO = {}


def _list_lookup(lst, idx):
    try:
        key = (tuple(lst), idx.e.get_id(), idx.lo, idx.hi)
        hit = _LL_MEMO.get(key)
    except TypeError:
        key = hit = None
    if hit is not None:
        return hit[0]
    r = _list_lookup0(lst, idx)
    if key is not None and not (idx.lo >= len(lst) or idx.lo < 0 or idx.hi >= len(lst)):
        if len(_LL_MEMO) > 100000:
            _LL_MEMO.clear()
        _LL_MEMO[key] = (r, idx)
    return r


def _list_lookup0(lst, idx):
    n = len(lst)
    if idx.lo >= n or idx.hi < -n:
        raise IndexError("list index out of range")
    if idx.lo < -n or idx.hi >= n:
        if core.EX.branch(z3.Or(idx._cmp_expr(n, "ge"), idx._cmp_expr(-n, "lt"))):
            raise IndexError("list index out of range")
    if idx.lo < 0:
        if core.EX.branch(idx._cmp_expr(0, "lt")):
            raise EngineError("negative symbolic index")
    lo, hi = max(idx.lo, 0), min(idx.hi, n - 1)
    vals = lst[lo:hi + 1]
    if all(isinstance(v, int) and not isinstance(v, bool) for v in vals):
        vlo, vhi = min(vals), max(vals)
        w = core._fit(vlo, vhi)
        e = z3.BitVecVal(vals[-1], w)
        for j in range(len(vals) - 2, -1, -1):
            e = z3.If(idx._cmp_expr(lo + j, "eq"), z3.BitVecVal(vals[j], w), e)
        return SInt.mk(e, vlo, vhi)
    if all(isinstance(v, str) and len(v) == 1 and ord(v) < 256 for v in vals):
        e = z3.BitVecVal(ord(vals[-1]), CW)
        for j in range(len(vals) - 2, -1, -1):
            e = z3.If(idx._cmp_expr(lo + j, "eq"), z3.BitVecVal(ord(vals[j]), CW), e)
        e = z3.simplify(e)
        if z3.is_bv_value(e):
            return chr(e.as_long())
        if lo == 0 and hi == n - 1:
            CHAR_SRC[e.get_id()] = (e, list(lst), idx)
        return SStr.mk([core.register_char_set(e, [ord(v) for v in vals])])
    return lst[idx.concretize()]


def _sx_getitem(x, k):
    if isinstance(k, PROXY) or isinstance(x, PROXY):
        k = norm(k)
        x = norm(x)
        if isinstance(x, dict) and isinstance(k, SStr):
            def missing():
                raise KeyError("<symbolic key>")
            return _table_lookup(list(x.items()), k, missing)
        if isinstance(x, SymDict) and isinstance(k, SStr) and not x.sym:
            def missing():
                raise KeyError("<symbolic key>")
            return _table_lookup(list(x.conc.items()), k, missing)
        if isinstance(x, (list, tuple)) and isinstance(k, SInt):
            return _list_lookup(list(x), k)
        if isinstance(x, str) and isinstance(k, SInt):
            return _list_lookup(list(x), k)
        if isinstance(x, (dict,)) and isinstance(k, SInt):
            raise EngineError("dict indexed by a symbolic integer")
    if type(k) is slice:
        k = core.concretize_slice(k)
    return x[k]  # passthrough


def _sx_in(a, b):
    if isinstance(a, PROXY) or isinstance(b, PROXY):
        a, b = norm(a), norm(b)
        if isinstance(b, SStr):
            return b.__contains__(a)
        if isinstance(b, str):
            if isinstance(a, SStr):
                return SStr.of(b).__contains__(a)
        if isinstance(a, SStr):
            if isinstance(b, (set, frozenset)):
                return a in _view(b)
            if isinstance(b, dict):
                return a in _view_dict(b)
            if isinstance(b, (list, tuple)):
                for y in b:
                    if models.key_eq(y, a):
                        return True
                return False
        if isinstance(a, SInt) and isinstance(b, (list, tuple, set, frozenset, range)):
            for y in b:
                if a == y:
                    return True
            return False
    elif isinstance(b, (list, tuple)) and b and any(isinstance(y, PROXY) for y in b):
        for y in b:
            if models.key_eq(y, a):
                return True
        return False
    return a in b  # passthrough


_views = {}


def _view(s):
    v = _views.get(id(s))
    if v is None or v[0] is not s or v[2] != len(s):
        v = _views[id(s)] = (s, SymSet(base=s), len(s))
    return v[1]


def _view_dict(d):
    return SymSet(base=set(d.keys()))


def _sx_iter(x):
    return iter_any(x)


# --------------------------------------------------------------------------- method calls
def _any_proxy(a, k):
    for x in a:
        if isinstance(x, PROXY):
            return True
    for x in k.values():
        if isinstance(x, PROXY):
            return True
    return False


def _sx_call(_o, _n, /, *a, **k):
    to = type(_o)
    if to is str:
        if _n == "join":
            items = a[0]
            if not isinstance(items, (list, tuple)):
                items = list(iter_any(items))
            for it in items:
                if isinstance(it, SStr):
                    return SStr.of(_o).join(items)
            return _o.join(items)
        if _n == "format":
            for x in a:
                if _needs_sym(x):
                    return sym_format(_o, a, k)
            for x in k.values():
                if _needs_sym(x):
                    return sym_format(_o, a, k)
            return _o.format(*a, **k)
        if _any_proxy(a, k):
            return getattr(SStr.of(_o), _n)(*a, **k)
        return getattr(_o, _n)(*a, **k)
    if to is SStr or to is SBytes or to is SInt:
        return getattr(_o, _n)(*a, **k)
    if to is set or to is frozenset:
        if a and (isinstance(a[0], PROXY) or (isinstance(a[0], (list, tuple)) and any(isinstance(y, PROXY) for y in a[0]))):
            if _n == "issuperset":
                arg = a[0]
                if isinstance(arg, SStr):
                    alls = {ord(c) for c in _o if isinstance(c, str) and len(c) == 1}
                    for c in arg.cs:
                        if isinstance(c, int) and c not in alls:
                            return False
                    syms = [c for c in arg.cs if not isinstance(c, int)]
                    if not syms:
                        return True
                    return core.EX.branch(z3.And(*[core.in_set_expr(c, alls) for c in syms]))
            raise EngineError("%s.%s with a symbolic argument (un-modelled container)" % (to.__name__, _n))
        return getattr(_o, _n)(*a, **k)
    if to is dict:
        if a and isinstance(a[0], PROXY):
            key = norm(a[0])
            if _n == "get" and isinstance(key, SStr):
                default = a[1] if len(a) > 1 else k.get("default")
                return _table_lookup(list(_o.items()), key, lambda: default)
            if isinstance(key, PROXY):
                raise EngineError("dict.%s with a symbolic key (un-modelled container)" % _n)
        return getattr(_o, _n)(*a, **k)
    if to is list:
        if _n in ("index", "count", "remove") and (isinstance(a[0], PROXY) or any(isinstance(y, PROXY) for y in _o)):
            raise EngineError("list.%s with symbolic values" % _n)
        return getattr(_o, _n)(*a, **k)
    if to is re.Pattern:
        if _any_proxy(a, k) or (_n in ("sub", "subn") and callable(a[0])):
            return getattr(symre.wrap_real_pattern(_o), _n)(*a, **k)
        return getattr(_o, _n)(*a, **k)
    return getattr(_o, _n)(*a, **k)  # passthrough


HELPERS = {
    "_sx_call": _sx_call, "_sx_in": _sx_in, "_sx_getitem": _sx_getitem, "_sx_fstr": _sx_fstr,
    "_sx_fmtval": _sx_fmtval, "_sx_mod": _sx_mod, "_sx_mkdict": _sx_mkdict, "_sx_mkset": _sx_mkset,
    "_sx_iter": _sx_iter,
}
