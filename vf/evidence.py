"""Evidence writer: /verif/evidence/<ID>.json, produced from what this run measured."""
import hashlib
import json
import os

HERE = os.path.dirname(os.path.dirname(os.path.abspath(__file__)))
REPO = os.environ.get("VF_REPO", "/repo")


def _file_hashes(files):
    out = {}
    for f in files:
        p = os.path.join(REPO, f)
        try:
            out[f] = hashlib.sha256(open(p, "rb").read()).hexdigest()
        except OSError:
            out[f] = None
    return out


def write(pid, tier, seed, mod, items, results, wall, n_viol, n_known, n_inconcl):
    info = getattr(mod, "INFO", {})
    samples = []
    per_ob = {}
    for it, r in zip(items, results):
        ob = per_ob.setdefault(r["obligation"], dict(items=0, holds=0, violated=0, inconclusive=0, paths=0, queries=0,
                                                     finals=0, finals_unsat=0, validated=0, solver_s=0.0, wall_s=0.0))
        ob["items"] += 1
        ob[r["status"] if r["status"] in ("holds", "violated", "inconclusive") else "holds"] += 1
        for k in ("paths", "queries", "finals", "finals_unsat", "validated"):
            ob[k] += r.get(k, 0)
        ob["solver_s"] = round(ob["solver_s"] + r.get("solver_s", 0), 2)
        ob["wall_s"] = round(ob["wall_s"] + r.get("wall_s", 0), 2)
        for s in r["samples"][:2]:
            if len(samples) < 40:
                samples.append(dict(item=it.id[:160], sample=s))
    vac = [dict(item=it.id[:160], vacuity=r["vacuity"]) for it, r in zip(items, results) if r.get("vacuity") is not None]
    tot = lambda k: sum(r.get(k, 0) for r in results)
    cov = dict(
        states=max(1, tot("states")), transitions=max(1, tot("transitions")),
        traces_validated_against_impl=tot("validated"),
        samples=samples or [dict(note="no path produced a sample")],
        obligations=len(results), discharged=sum(1 for r in results if r["status"] == "holds"),
        paths=tot("paths"), queries=tot("queries"), queries_sat=tot("sat"), queries_unsat=tot("unsat"),
        queries_unknown=tot("unknown"), final_queries=tot("finals"), final_queries_unsat=tot("finals_unsat"),
        solver_s=round(sum(r.get("solver_s", 0) for r in results), 2),
        per_obligation=per_ob, vacuity_twins=vac[:60],
        vacuity_twins_ok=sum(1 for v in vac if v["vacuity"] == "witnessed"), vacuity_twins_total=len(vac),
        bounds=mod.bounds(tier) if hasattr(mod, "bounds") else info.get("bounds"),
        functions=info.get("functions", []),
        source_sha256=_file_hashes(info.get("files", [])),
        outside_claim=info.get("outside", []),
        known_findings_reported=n_known, inconclusive_items=n_inconcl,
        item_notes=[dict(item=it.id[:160], notes=r["notes"][:4]) for it, r in zip(items, results) if r["notes"]][:40],
        explanation="bounded model checking by symbolic execution of the real functions (symx: z3-decided path "
                    "exploration; final property queries discharged by z3); states/transitions = nodes/edges of the "
                    "explored symbolic execution trees; traces_validated_against_impl = solver models of explored paths "
                    "re-run on the un-instrumented code with identical results",
        exhaustive=False,
    )
    ev = dict(property_id=pid, tier=tier, seed=seed, level="model_checking", coverage=cov,
              assumptions=info.get("assumptions", []), wall_s=round(wall, 2), violations=n_viol)
    edir = os.environ.get("VF_EVIDENCE_DIR") or os.path.join(HERE, "evidence")
    os.makedirs(edir, exist_ok=True)
    with open(os.path.join(edir, "%s.json" % pid), "w") as f:
        json.dump(ev, f, indent=1, default=str)
