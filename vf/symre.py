"""Symbolic interpreter for CPython `re` patterns over SStr subjects (concrete length, symbolic characters).

The repo's patterns are code.  A SymPattern keeps the real compiled pattern (used verbatim whenever the subject is
concrete) and its sre parse tree; on a subject with symbolic characters it runs a backtracking matcher that follows
CPython's priority semantics (ordered alternation, greedy/lazy repeats with the zero-width-iteration guard,
last-iteration captures, fixed-width look-behind, `$` before a final newline, the must-advance rule of sub()).
Single-character nodes become exact code-point sets by compiling the one-node tree with CPython and testing all
256 characters of the domain.  Unknown opcodes raise EngineError.
"""
import re
import sys
import re._parser as P
import re._compiler as C
import re._constants as K
import z3

from . import core
from .core import SStr, SInt, EngineError, char_in, in_set_expr

sys.setrecursionlimit(max(sys.getrecursionlimit(), 50000))
DOMAIN = range(256)
_atom_cache = {}
_FLAGMASK = re.I | re.S | re.A | re.U | re.M


_atom_fast = {}


def atom_set(node, flags):
    """Set of domain code points matched by a single-character node (tabulated from CPython itself)."""
    fk = (id(node[1]), node[0], flags)
    hit = _atom_fast.get(fk)
    if hit is not None and hit[0] is node[1]:
        return hit[1]
    r = _atom_set(node, flags)
    if not isinstance(node[1], int):
        _atom_fast[fk] = (node[1], r)
    return r


def _atom_set(node, flags):
    key = (repr(node), flags & _FLAGMASK)
    r = _atom_cache.get(key)
    if r is None:
        st = P.State()
        st.flags = flags
        sp = P.SubPattern(st, [node])
        cp = C.compile(sp, flags & _FLAGMASK)
        r = frozenset(c for c in DOMAIN if cp.fullmatch(chr(c)))
        _atom_cache[key] = r
    return r


SINGLE = (K.LITERAL, K.NOT_LITERAL, K.IN, K.ANY)


def _plain_nodes(sub):
    """SubPattern -> plain nested lists/tuples (same shape as the sre parse tree, cheaper to walk)"""
    out = []
    for op, av in sub:
        if op is K.SUBPATTERN:
            av = (av[0], av[1], av[2], _plain_nodes(av[3]))
        elif op is K.BRANCH:
            av = (av[0], [_plain_nodes(a) for a in av[1]])
        elif op in (K.MAX_REPEAT, K.MIN_REPEAT):
            av = (av[0], av[1], _plain_nodes(av[2]))
        elif op in (K.ASSERT, K.ASSERT_NOT):
            lo_, hi_ = av[1].getwidth()
            av = (av[0], _plain_nodes(av[1]), lo_, hi_)
        out.append((op, av))
    return out


stats = {"sym_searches": 0, "sym_subs": 0}


class SymMatch:
    def __init__(self, pat, string, start, end, caps):
        self.re, self.string, self._s, self._e, self.caps = pat, string, start, end, caps

    def span(self, g=0):
        if g == 0:
            return (self._s, self._e)
        if isinstance(g, (str, SStr)):
            g = self.re.groupindex[core_plain(g)]
        if g > self.re.groups or g < 0:
            raise IndexError("no such group")
        return self.caps.get(g, (-1, -1))

    def group(self, *gs):
        if not gs:
            gs = (0,)
        out = []
        for g in gs:
            a, b = self.span(g)
            out.append(None if a < 0 else self.string[a:b])
        return out[0] if len(out) == 1 else tuple(out)

    def groups(self, default=None):
        out = []
        for g in range(1, self.re.groups + 1):
            a, b = self.span(g)
            out.append(default if a < 0 else self.string[a:b])
        return tuple(out)

    def groupdict(self, default=None):
        out = {}
        for n, i in self.re.groupindex.items():
            a, b = self.span(i)
            out[n] = default if a < 0 else self.string[a:b]
        return out

    def start(self, g=0):
        return self.span(g)[0]

    def end(self, g=0):
        return self.span(g)[1]

    def __getitem__(self, g):
        return self.group(g)


def core_plain(x):
    if isinstance(x, SStr):
        if not x.concrete():
            raise EngineError("symbolic group name")
        return x.plain()
    return x


class SymPattern:
    def __init__(self, pattern, flags=0):
        if isinstance(pattern, SymPattern):
            pattern = pattern.real
        if isinstance(pattern, SStr):
            if not pattern.concrete():
                raise EngineError("regular expression built from symbolic text")
            pattern = pattern.plain()
        self.real = re.compile(pattern, flags) if isinstance(pattern, str) else pattern
        self.pattern = self.real.pattern
        self.flags = self.real.flags
        self.groups = self.real.groups
        self.groupindex = dict(self.real.groupindex)
        self.tree = P.parse(self.pattern, self.flags)
        self.tflags = self.tree.state.flags
        self.prog = _plain_nodes(self.tree)
        self.force_symbolic = False  # self-test switch: interpret even concrete subjects
        self._widths = {}

    def __repr__(self):
        return "SymPattern(%r)" % self.pattern

    # --- core matcher: continuation-passing backtracking, first success wins
    def _m(self, nodes, i, s, pos, caps, k):
        n = len(s.cs)
        if i == len(nodes):
            return k(pos, caps)
        op, av = nodes[i]
        if op in SINGLE:
            if pos >= n:
                return False
            if not char_in(s.cs[pos], atom_set((op, av), self.tflags)):
                return False
            return self._m(nodes, i + 1, s, pos + 1, caps, k)
        nxt = lambda p, c: self._m(nodes, i + 1, s, p, c, k)
        if op is K.AT:
            if av in (K.AT_BEGINNING, K.AT_BEGINNING_STRING):
                if av is K.AT_BEGINNING and (self.tflags & re.M):
                    raise EngineError("MULTILINE ^")
                ok = pos == 0
            elif av is K.AT_END:
                if self.tflags & re.M:
                    raise EngineError("MULTILINE $")
                ok = pos == n or (pos == n - 1 and char_in(s.cs[pos], {10}))
            elif av is K.AT_END_STRING:
                ok = pos == n
            else:
                raise EngineError("unsupported sre AT code %s" % av)
            return ok and nxt(pos, caps)
        if op is K.SUBPATTERN:
            g, addf, delf, sub = av
            if addf or delf:
                raise EngineError("inline flags")

            def after(p, c):
                if g is not None:
                    c = dict(c)
                    c[g] = (pos, p)
                return nxt(p, c)
            return self._m(sub, 0, s, pos, caps, after)
        if op is K.BRANCH:
            for alt in av[1]:
                if self._m(alt, 0, s, pos, caps, nxt):
                    return True
            return False
        if op in (K.MAX_REPEAT, K.MIN_REPEAT):
            lo, hi, sub = av
            greedy = op is K.MAX_REPEAT
            unbounded = hi is K.MAXREPEAT

            def body(count, p, c):
                return self._m(sub, 0, s, p, c, lambda p2, c2: after_iter(count + 1, p, p2, c2))

            def after_iter(count, started_at, p, c):
                if count < lo:
                    return body(count, p, c)
                can_more = (unbounded or count < hi) and p != started_at
                if greedy:
                    if can_more and body(count, p, c):
                        return True
                    return nxt(p, c)
                if nxt(p, c):
                    return True
                return can_more and body(count, p, c)
            return after_iter(0, None, pos, caps)
        if op in (K.ASSERT, K.ASSERT_NOT):
            direction, sub, wlo, whi = av
            if direction > 0:
                if op is K.ASSERT:
                    return self._m(sub, 0, s, pos, caps, lambda p, c: nxt(pos, c))
                res = self._m(sub, 0, s, pos, caps, lambda p, c: True)
            else:
                if wlo != whi:
                    raise EngineError("variable-width look-behind")
                w = wlo
                st = pos - w
                if op is K.ASSERT:
                    if st < 0:
                        return False
                    return self._m(sub, 0, s, st, caps, lambda p, c: p == pos and nxt(pos, c))
                res = st >= 0 and self._m(sub, 0, s, st, caps, lambda p, c: p == pos)
            if res:
                return False
            return nxt(pos, caps)
        raise EngineError("unsupported sre opcode %s" % op)

    def _match_at(self, s, start, full=False, must_advance=False):
        out = []

        def fin(p, c):
            if full and p != len(s.cs):
                return False
            if must_advance and p == start:
                return False
            out.append((p, c))
            return True
        if self._m(self.prog, 0, s, start, {}, fin):
            p, c = out[0]
            return SymMatch(self, s, start, p, c)
        return None

    def _sym(self, string):
        if isinstance(string, SStr):
            if string.has_atom():
                string._noatom("regular expression")     # renders the atoms when a harness enabled that, refuses otherwise
            return self.force_symbolic or not string.concrete()
        return self.force_symbolic

    @staticmethod
    def _tostr(s):
        return s.plain() if isinstance(s, SStr) else s

    def search(self, string, pos=0, endpos=None):
        if endpos is not None:
            raise EngineError("search(endpos)")
        if not self._sym(string):
            return self.real.search(self._tostr(string), pos)
        stats["sym_searches"] += 1
        string = SStr.of(string)
        for st in range(pos, len(string.cs) + 1):
            m = self._match_at(string, st)
            if m is not None:
                return m
        return None

    def match(self, string, pos=0):
        if not self._sym(string):
            return self.real.match(self._tostr(string), pos)
        return self._match_at(SStr.of(string), pos)

    def fullmatch(self, string):
        if not self._sym(string):
            return self.real.fullmatch(self._tostr(string))
        return self._match_at(SStr.of(string), 0, full=True)

    def _iter_matches(self, string):
        """successive matches with CPython's scanning rules (as in sub / finditer / split)"""
        string = SStr.of(string)
        n = len(string.cs)
        start, must_advance = 0, False
        out = []
        while start <= n:
            m = None
            for st in range(start, n + 1):
                m = self._match_at(string, st, must_advance=(must_advance and st == start))
                if m is not None:
                    break
            if m is None:
                break
            out.append(m)
            must_advance = (m._e == m._s)
            start = m._e
        return out

    def finditer(self, string):
        if not self._sym(string):
            return self.real.finditer(self._tostr(string))
        return iter(self._iter_matches(string))

    def findall(self, string):
        if not self._sym(string):
            return self.real.findall(self._tostr(string))
        out = []
        for m in self._iter_matches(string):
            if self.groups == 0:
                out.append(m.group(0))
            elif self.groups == 1:
                out.append(m.group(1) if m.group(1) is not None else "")
            else:
                out.append(tuple(g if g is not None else "" for g in m.groups()))
        return out

    def split(self, string, maxsplit=0):
        if not self._sym(string):
            return self.real.split(self._tostr(string), maxsplit)
        s = SStr.of(string)
        out, last, k = [], 0, 0
        for m in self._iter_matches(s):
            if maxsplit and k >= maxsplit:
                break
            out.append(SStr.mk(s.cs[last:m._s]))
            for g in range(1, self.groups + 1):
                out.append(m.group(g))
            last = m._e
            k += 1
        out.append(SStr.mk(s.cs[last:]))
        return out

    def sub(self, repl, string, count=0):
        return self.subn(repl, string, count)[0]

    def subn(self, repl, string, count=0):
        repl_sym = isinstance(repl, SStr) and not repl.concrete()
        if isinstance(repl, SStr) and not repl_sym:
            repl = repl.plain()
        if not self._sym(string) and not repl_sym:
            if callable(repl):
                # the callback may return a proxy; then assemble the result ourselves
                return self._sub_concrete_cb(repl, self._tostr(string), count)
            return self.real.subn(repl, self._tostr(string), count)
        stats["sym_subs"] += 1
        string = SStr.of(string)
        n = len(string.cs)
        out = []
        i = 0          # copy position
        start = 0      # search position
        must_advance = False
        nsub = 0
        while (not count or nsub < count) and start <= n:
            m = None
            for st in range(start, n + 1):
                m = self._match_at(string, st, must_advance=(must_advance and st == start))
                if m is not None:
                    break
            if m is None:
                break
            b, e = m._s, m._e
            out.extend(string.cs[i:b])
            r = repl(m) if callable(repl) else expand_template(self, repl, m)
            out.extend(SStr.of(_as_text(r)).cs)
            i = e
            nsub += 1
            must_advance = (e == b)
            start = e
        out.extend(string.cs[i:])
        return SStr.mk(out), nsub

    def _sub_concrete_cb(self, repl, string, count):
        out = []
        i = 0
        nsub = 0
        for m in self.real.finditer(string):
            if count and nsub >= count:
                break
            out.extend(ord(c) for c in string[i:m.start()])
            out.extend(SStr.of(_as_text(repl(m))).cs)
            i = m.end()
            nsub += 1
        out.extend(ord(c) for c in string[i:])
        for c in out:
            if isinstance(c, int) and c > 255:
                # concrete text beyond Latin-1: only reachable with fully concrete data; fall back to CPython
                return self.real.subn(lambda m: _need_str(repl(m)), string, count)
        return SStr.mk(out), nsub


def _need_str(x):
    if isinstance(x, SStr):
        raise EngineError("non-Latin-1 subject with symbolic replacement")
    return x


def _as_text(r):
    if isinstance(r, (str, SStr)):
        return r
    raise TypeError("expected str instance, %s found" % type(r).__name__)


_ESC = {"a": 7, "b": 8, "f": 12, "n": 10, "r": 13, "t": 9, "v": 11, "\\": 92}
_ASCIILETTERS = frozenset(ord(c) for c in "abcdefghijklmnopqrstuvwxyzABCDEFGHIJKLMNOPQRSTUVWXYZ")
_DIG = frozenset(range(48, 58))
_OCT = frozenset(range(48, 56))


def expand_template(pat, repl, m):
    """CPython's replacement-template semantics (re._parser.parse_template) over a possibly symbolic template."""
    if isinstance(repl, str):
        parts = P.parse_template(repl, pat.real)
        out = []
        for p in parts:
            if isinstance(p, int):
                v = m.group(p)
                if v is not None:
                    out.extend(SStr.of(v).cs)
            else:
                out.extend(ord(c) for c in p)
        return SStr.mk(out)
    cs = list(SStr.of(repl).cs)
    if any(isinstance(c, core.Atom) for c in cs):
        raise EngineError("replacement template containing a rendered symbolic value")
    n = len(cs)
    out = []

    def conc(j, among):
        """concrete value of cs[j] given it is known to lie in `among` (forks over the values)"""
        c = cs[j]
        if isinstance(c, int):
            return c
        v = core.EX.fork_values(c, [z3.BitVecVal(x, 8) for x in sorted(among)])
        return v.as_long()

    def addgroup(idx):
        if idx > pat.groups:
            raise re.error("invalid group reference %d" % idx)
        v = m.group(idx)
        if v is not None:
            out.extend(SStr.of(v).cs)

    i = 0
    while i < n:
        c = cs[i]
        if not char_in(c, {92}):
            out.append(c)
            i += 1
            continue
        if i + 1 >= n:
            raise re.error("bad escape (end of pattern)")
        d = cs[i + 1]
        if char_in(d, {ord("g")}):
            if i + 2 >= n or not char_in(cs[i + 2], {ord("<")}):
                raise re.error("missing <")
            j = i + 3
            name = []
            while True:
                if j >= n:
                    raise re.error("missing >, unterminated name")
                if char_in(cs[j], {ord(">")}):
                    break
                if not isinstance(cs[j], int):
                    raise EngineError("symbolic group name in replacement template")
                name.append(chr(cs[j]))
                j += 1
            name = "".join(name)
            if not name:
                raise re.error("missing group name")
            if name.isdecimal() and name.isascii():
                addgroup(int(name))
            else:
                if not name.isidentifier():
                    raise re.error("bad character in group name %r" % name)
                if name not in pat.groupindex:
                    raise IndexError("unknown group name %r" % name)
                addgroup(pat.groupindex[name])
            i = j + 1
            continue
        if char_in(d, {48}):
            this = [48]
            j = i + 2
            while j < n and len(this) < 3 and char_in(cs[j], _OCT):
                this.append(conc(j, _OCT))
                j += 1
            out.append(int("".join(map(chr, this)), 8) & 0xFF)
            i = j
            continue
        if char_in(d, _DIG):
            d0 = conc(i + 1, _DIG - {48})
            this = [d0]
            j = i + 2
            isoctal = False
            if j < n and char_in(cs[j], _DIG):
                d1 = conc(j, _DIG)
                this.append(d1)
                j += 1
                if d0 in _OCT and d1 in _OCT and j < n and char_in(cs[j], _OCT):
                    d2 = conc(j, _OCT)
                    j += 1
                    v = int("".join(map(chr, this + [d2])), 8)
                    if v > 0o377:
                        raise re.error("octal escape value outside of range 0-0o377")
                    out.append(v)
                    isoctal = True
            if not isoctal:
                addgroup(int("".join(map(chr, this))))
            i = j
            continue
        if char_in(d, frozenset(ord(x) for x in _ESC)):
            v = conc(i + 1, frozenset(ord(x) for x in _ESC))
            out.append(_ESC[chr(v)])
            i += 2
            continue
        if char_in(d, _ASCIILETTERS):
            raise re.error("bad escape \\%s" % (chr(d) if isinstance(d, int) else "<letter>"))
        out.append(c)
        out.append(d)
        i += 2
    return SStr.mk(out)


class SymReModule:
    """Stand-in for the `re` module inside the modules under test."""
    error = re.error
    Pattern = re.Pattern
    Match = re.Match

    def __init__(self):
        self._cache = {}
        for name in ("IGNORECASE", "I", "MULTILINE", "M", "DOTALL", "S", "ASCII", "A", "UNICODE", "U", "VERBOSE", "X"):
            setattr(self, name, getattr(re, name))

    def compile(self, pattern, flags=0):
        if isinstance(pattern, SymPattern):
            return pattern
        if isinstance(pattern, SStr):
            if not pattern.concrete():
                raise EngineError("regular expression built from symbolic text")
            pattern = pattern.plain()
        key = (pattern, int(flags))
        p = self._cache.get(key)
        if p is None:
            p = self._cache[key] = SymPattern(pattern, flags)
        return p

    def match(self, pattern, string, flags=0):
        return self.compile(pattern, flags).match(string)

    def fullmatch(self, pattern, string, flags=0):
        return self.compile(pattern, flags).fullmatch(string)

    def search(self, pattern, string, flags=0):
        return self.compile(pattern, flags).search(string)

    def sub(self, pattern, repl, string, count=0, flags=0):
        return self.compile(pattern, flags).sub(repl, string, count)

    def subn(self, pattern, repl, string, count=0, flags=0):
        return self.compile(pattern, flags).subn(repl, string, count)

    def split(self, pattern, string, maxsplit=0, flags=0):
        return self.compile(pattern, flags).split(string, maxsplit)

    def findall(self, pattern, string, flags=0):
        return self.compile(pattern, flags).findall(string)

    def finditer(self, pattern, string, flags=0):
        return self.compile(pattern, flags).finditer(string)

    def escape(self, s):
        if isinstance(s, SStr):
            raise EngineError("re.escape of symbolic text")
        return re.escape(s)

    def __getattr__(self, name):
        raise EngineError("re.%s is not modelled" % name)


RE = SymReModule()
_wrapped = {}


def wrap_real_pattern(p):
    """A real compiled pattern object met at run time (e.g. built at import time by un-instrumented code)."""
    sp = _wrapped.get(id(p))
    if sp is None:
        sp = _wrapped[id(p)] = RE.compile(p.pattern, p.flags)
    return sp
