"""C17 - The dumped IP map is exactly the mapping that was applied."""
import time
import z3

from .. import core, harness
from ..core import Explorer, SInt, SStr, Atom
from ..harness import Item, fam, plain, ev
from . import ipcommon as ipc

INFO = dict(
    functions=["_BaseIpAnonymizer.dump_to_file", "_BaseIpAnonymizer._ip_to_str", "anonymize (both caching paths: host bits 0 and >0)", "deanonymize",
               "IpAnonymizer.__init__ (seeded full-length entries)", "IpV6Anonymizer"],
    files=["netconan/ip_anonymization.py"],
    assumptions=["md5 is an uninterpreted function (all salts)", "canonical address text is an opaque injective rendering (ipaddress.__str__ trusted)",
                 "the second request's address is arbitrary: exhaustive case split on its common-prefix length with the first"],
    outside=["the file written by anonymize_files (I/O layer)", "more than 2 (+1 undo) requests", "text <-> integer conversion (C06)"],
)


def _cfgs(tier):
    base = [dict(prefixes=[], networks=None, B=0), dict(prefixes=[], networks=None, B=8), dict(prefixes=[], networks=["11.22.33.44/32"], B=8),
            dict(prefixes=["192.0.0.0/3"], networks=["11.22.33.44/32"], B=0)]
    if tier == "thorough":
        base += [dict(prefixes=list(ipc.CLASSES), networks=["11.22.33.44/32"], B=b) for b in (0, 8)] + [dict(prefixes=None, networks=None, B=b) for b in (0, 8)] + [dict(prefixes=None, networks=list(ipc.RFC1918) + ["8.8.8.8/32"], B=b) for b in (0, 8, 24)] + \
                [dict(prefixes=[], networks=["11.22.33.44/32", "11.22.33.45/32"], B=b) for b in (0, 1, 8, 32)]
    return base


def bounds(tier):
    return dict(requests="IPv4: 2 arbitrary anonymize requests" + (" followed by one undo request of the first image; IPv6: 2 requests" if tier == "thorough" else "; IPv6: 1 request"),
                v4_configs=[ipc.cfg_key(c) for c in _cfgs(tier)], v6_host_bits=[0, 8], addresses="all addresses", hash="all functions")


def items(tier, seed):
    out = []
    for c in _cfgs(tier):
        nshard = 1 if not c["networks"] and not c["prefixes"] else 6
        for lo, hi in ipc.shards(33, nshard):
            out.append(Item("C17", "dump", dict(family=4, cfg=c, undo=(tier == "thorough"), ms=[lo, hi]), budget_s=400 if tier == "quick" else 2400, obligation="H1-dump-v4"))
    for b in (0, 8):
        if tier == "quick":
            out.append(Item("C17", "dump", dict(family=6, cfg=dict(prefixes=None, networks=None, B=b), undo=False, k=1), budget_s=300, obligation="H1-dump-v6"))
        else:
            for lo, hi in ipc.shards(129, 8):
                out.append(Item("C17", "dump", dict(family=6, cfg=dict(prefixes=None, networks=None, B=b), undo=False, k=2, ms=[lo, hi]), budget_s=3000, obligation="H1-dump-v6"))
    return out


class WrongFamily(Exception):
    """a dump field renders an address in the other family's notation"""


class Recorder:
    def __init__(self):
        self.writes = []

    def write(self, s):
        self.writes.append(s)


def parse_line(w, family, W):
    """'<ip>\\t<anon>\\n' with rendered addresses -> (x_bv, y_bv)"""
    kind = "ipv4" if family == 4 else "ipv6"
    import ipaddress
    if isinstance(w, str):
        x, y = w.rstrip("\n").split("\t")
        if not w.endswith("\n"):
            raise core.EngineError("dump line without terminator")
        return z3.BitVecVal(int(ipaddress.ip_address(x)), W), z3.BitVecVal(int(ipaddress.ip_address(y)), W)
    cs = w.cs
    # split at the tab
    if 9 not in cs or cs[-1] != 10:
        raise core.EngineError("unexpected dump line shape %r" % w)
    i = cs.index(9)

    def val(seg):
        if len(seg) == 1 and isinstance(seg[0], Atom) and seg[0].kind == kind:
            return seg[0].e
        if all(isinstance(c, int) for c in seg):
            return z3.BitVecVal(int(ipaddress.ip_address("".join(map(chr, seg)))), W)
        if len(seg) == 1 and isinstance(seg[0], Atom) and seg[0].kind in ("ipv4", "ipv6"):
            raise WrongFamily()
        raise core.EngineError("unexpected dump field %r" % (seg,))
    return val(cs[:i]), val(cs[i + 1:-1])


def dump(item, res):
    cfg, family, undo = item.params["cfg"], item.params["family"], item.params["undo"]
    W = ipc.width(family)
    a, sa = ipc.sym_addr("a", W)
    k = item.params.get("k", 2)
    ex = Explorer(deadline=time.time() + item.budget_s)
    found = []

    def h(ex_):
        X = ipc.make(cfg, family)
        ra = X.anonymize(sa)
        reqs = [(a, ipc.out_bv(ra, W))]
        b = a
        if k >= 2:
            lo, hi = item.params.get("ms", [0, W + 1])
            mm = lo + ex_.choice(hi - lo, "shared-prefix")
            b = ipc.related(a, mm, "b_free", W)
            rb = X.anonymize(SInt.unsigned(b))
            reqs.append((b, ipc.out_bv(rb, W)))
        if undo:
            X.deanonymize(ra)
        rec = Recorder()
        X.dump_to_file(rec)
        try:
            pairs = [parse_line(w, family, W) for w in rec.writes]
        except WrongFamily:
            m = ex_.model(z3.BoolVal(True))
            if m is not None:
                found.append((m, b))
            return ("cex", b, [])
        bad = []
        for (x, y) in reqs:   # every replaced address is listed with the replacement that was used
            bad.append(z3.Not(z3.Or(*[z3.And(px == x, py == y) for px, py in pairs])) if pairs else z3.BoolVal(True))
        for i, (px, py) in enumerate(pairs):   # every listed pair agrees with the mapping function; nothing listed twice
            fy = ipc.make(cfg, family).anonymize(px.as_long() if z3.is_bv_value(px) else SInt.unsigned(px))
            bad.append(py != ipc.out_bv(fy, W))
            for qx, qy in pairs[i + 1:]:
                bad.append(z3.Or(px == qx, py == qy))
        res["finals"] += 1
        m = ex_.model(z3.Or(*bad))
        if m is None:
            res["finals_unsat"] += 1
            return ("ok", b, pairs)
        found.append((m, b))
        return ("cex", b, pairs)
    paths = ex.explore(h)
    harness.add_stats(res, ex)
    for p in paths:
        if p.exc is not None and p.model is not None:
            found.append((p.model, None))
    nval = 0
    for p in paths[::max(1, len(paths) // 25)]:
        if p.model is None or p.exc is not None or p.result[0] != "ok":
            continue
        av, bv = ev(p.model, a), ev(p.model, p.result[1])
        r = _plain_dump(p.model, cfg, family, av, bv, undo)
        want = sorted((ev(p.model, x), ev(p.model, y)) for x, y in p.result[2])
        if sorted(map(tuple, r["pairs"])) != want:
            raise core.EngineError("concolic mismatch in dump: a=%d b=%d symbolic=%r concrete=%r" % (av, bv, want, r["pairs"]))
        nval += 1
        if len(res["samples"]) < 2:
            res["samples"].append(dict(config=ipc.cfg_key(cfg), family=family, requests=[av, bv], dump=r["lines"][:6]))
    res["validated"] += nval
    for m, b in found[:3]:
        av = ev(m, a)
        bv = ev(m, b) if b is not None else av
        r = _plain_dump(m, cfg, family, av, bv, undo)
        res["violations"].append(dict(description="dumped map disagrees with the applied mapping: %s" % r.get("detail"),
                                      witness=dict(a=av, b=bv, cfg=ipc.cfg_key(cfg), lines=r["lines"][:8]), tags=["dump"],
                                      replay=dict(replayer="ip_dump", args=dict(family=family, cfg=cfg, a=av, b=bv, undo=undo, md5_table=r["table"]))))
        res["status"] = "violated"
    res["vacuity"] = "witnessed" if any(p.model is not None and p.exc is None and len(p.result[2]) >= 1 for p in paths) else "VACUOUS"
    if res["vacuity"] != "witnessed":
        raise core.EngineError("vacuity: no path with a non-empty dump")


def _plain_dump(model, cfg, family, av, bv, undo):
    from .. import replayers

    def run(P):
        return replayers.ip_dump(P, dict(family=family, cfg=cfg, a=av, b=bv, undo=undo))
    r, table = ipc.md5_replay_table(model, run)
    r["table"] = table
    return r


HARNESSES = {"dump": dump}
