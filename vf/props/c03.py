"""C03 - The address mapping is a pure function of salt and options, not of history."""
import time
import z3

from .. import core, harness, models
from ..core import Explorer, SInt
from ..harness import Item, fam, plain, ev
from . import ipcommon as ipc

INFO = dict(
    functions=["_BaseIpAnonymizer.anonymize", "deanonymize", "_anonymize_bits", "_deanonymize_bits (shared memo `cache` / `cache.inv`)",
               "IpAnonymizer.__init__", "IpV6Anonymizer", "_generate_bit_from_hash"],
    files=["netconan/ip_anonymization.py"],
    assumptions=["md5 is an uninterpreted function (all salts)",
                 "every answer of the history-laden instance is compared with the answer of a fresh instance of the real class for the same request (self-composition)",
                 "H1: each later address is arbitrary -- exhaustive case split on its common-prefix length with the first request's memo key on the side it is looked up",
                 "H2: deep histories with all addresses inside one window of w symbolic bits under a concrete prefix (full-width real class)"],
    outside=["histories longer than the stated depth", "separate OS processes (no cross-process state exists other than the salt)", "file-level half: see C15"],
)


def _h1_cfgs(tier):
    q = [dict(prefixes=[], networks=None, B=0), dict(prefixes=[], networks=None, B=8), dict(prefixes=list(ipc.CLASSES), networks=None, B=8)]
    if tier == "thorough":
        q += [dict(prefixes=None, networks=None, B=8), dict(prefixes=None, networks=list(ipc.RFC1918), B=0), dict(prefixes=list(ipc.CLASSES), networks=["11.22.33.44/32"], B=1)]
    return q


V6_QUICK_MS = [0, 1, 64, 119, 120, 121, 127, 128]   # quick tier: second address shares exactly this many leading bits with the first key

WINDOWS = [
    # (cfg, concrete base address, window position = number of low bits below the window, window width)
    (dict(prefixes=None, networks=None, B=0), "10.1.2.192", 0, 5),
    (dict(prefixes=["10.1.2.208/29"], networks=None, B=0), "10.1.2.192", 0, 5),
    (dict(prefixes=None, networks=["172.16.5.64/28"], B=2), "172.16.5.64", 2, 5),
    (dict(prefixes=[], networks=None, B=8), "200.1.0.0", 8, 5),
]


def bounds(tier):
    return dict(H1="k=2 arbitrary requests (directions and addresses), v4 configs %r%s" % ([ipc.cfg_key(c) for c in _h1_cfgs(tier)],
                                                                                          "; v6 B in {0,8} (all 129 shared-prefix lengths); k=3 (direction patterns aaa, auu, uaa, uuu) for prefix list none" if tier == "thorough" else "; v6 B=8 with shared-prefix lengths %r only" % V6_QUICK_MS),
                H2="k=%d requests, every direction pattern, addresses in a %d-bit symbolic window: %r" % (3 if tier == "quick" else 4, 5, [(ipc.cfg_key(c), b, lo, w) for c, b, lo, w in WINDOWS]),
                H3="k=2 requests on a memo whose reported size is an arbitrary number (any earlier history length)", hash="all functions")


def items(tier, seed):
    out = []
    for c in _h1_cfgs(tier):
        for d1 in (0, 1):
            for d2 in (0, 1):
                heavy = c["prefixes"] is None or bool(c["networks"])
                for lo, hi in ipc.shards(33, 4 if heavy else 1):
                    out.append(Item("C03", "history2", dict(family=4, cfg=c, dirs=[d1, d2], ms=[lo, hi]), budget_s=600 if tier == "quick" else 2400, obligation="H1-history-k2-v4"))
    for c in (_h1_cfgs(tier)[:3] if tier == "quick" else _h1_cfgs(tier)):
        for d2 in (0, 1):
            out.append(Item("C03", "history2", dict(family=4, cfg=c, dirs=[0, d2], ms=[0, 33] if tier == "thorough" else [8, 25], arbitrary_memo_size=True),
                            budget_s=600 if tier == "quick" else 2400, obligation="H3-arbitrary-memo-size"))
    v6b = [8] if tier == "quick" else [0, 8]
    for b in v6b:
        for d1 in (0, 1):
            for d2 in (0, 1):
                if tier == "quick":
                    for mv in V6_QUICK_MS:
                        out.append(Item("C03", "history2", dict(family=6, cfg=dict(prefixes=None, networks=None, B=b), dirs=[d1, d2], ms=[mv, mv + 1]),
                                        budget_s=300, obligation="H1-history-k2-v6"))
                else:
                    for lo, hi in ipc.shards(129, 16):
                        out.append(Item("C03", "history2", dict(family=6, cfg=dict(prefixes=None, networks=None, B=b), dirs=[d1, d2], ms=[lo, hi]),
                                        budget_s=3000, obligation="H1-history-k2-v6"))
    if tier == "thorough":
        # mixed patterns 001, 010, 101, 110 at full width leave z3 without an answer within the per-query budget (measured);
        # mixed interleavings of every pattern are covered exhaustively in the 5-bit window (H2, k=4)
        for dirs in (0b000, 0b011, 0b100, 0b111):
            for lo, hi in ipc.shards(33, 3):
                out.append(Item("C03", "history3", dict(family=4, cfg=dict(prefixes=[], networks=None, B=8), dirs=[(dirs >> 2) & 1, (dirs >> 1) & 1, dirs & 1], ms=[lo, hi]),
                                budget_s=3000, obligation="H1-history-k3-v4"))
    k = 3 if tier == "quick" else 4
    for wi in range(len(WINDOWS)):
        for dirs in range(1 << k):
            out.append(Item("C03", "window", dict(win=wi, k=k, dirs=[(dirs >> i) & 1 for i in range(k)]), budget_s=600 if tier == "quick" else 3000, obligation="H2-window-histories"))
    return out


def _call(an, d, x):
    arg = x.as_long() if z3.is_bv_value(x) else SInt.unsigned(x)
    return an.anonymize(arg) if d == 0 else an.deanonymize(arg)


def _run_history(item, res, build):
    """build(ex) -> list of (direction, address term); checks every answer against a fresh instance, in-path."""
    cfg, family = item.params["cfg"], item.params["family"]
    W = ipc.width(family)
    ex = Explorer(deadline=time.time() + item.budget_s)
    found = []

    def h(ex_):
        S = ipc.make(cfg, family)
        if item.params.get("arbitrary_memo_size"):
            # the memo may already hold any number of further entries from an arbitrary earlier history: its reported
            # size is an arbitrary number >= the entries that matter here
            extra = z3.BitVec("memo_extra", 40)
            ex_.assume(z3.ULE(extra, 1000000))    # bounded so that a replay can build such a memo
            S.cache.extra_len = SInt.unsigned(extra)
        reqs, bad, outs = [], [], []
        gen = build(ex_, W)
        prev = None
        ex_.path_data["md5"] = models.ENV.md5_calls     # the list object is filled as the path runs
        while True:
            try:
                d, x = gen.send(prev)
            except StopIteration:
                break
            r = ipc.out_bv(_call(S, d, x), W)
            fr = ipc.out_bv(_call(ipc.make(cfg, family), d, x), W)
            reqs.append((d, x))
            outs.append(r)
            bad.append(r != fr)
            prev = (d, x, r)
        res["finals"] += 1
        m = ex_.model(z3.Or(*bad))
        if m is None:
            res["finals_unsat"] += 1
            return ("ok", reqs, outs)
        pad = None
        if item.params.get("arbitrary_memo_size"):
            # smallest memo size that still shows the violation (binary search), so that the replay can build such a memo
            lo_, hi_ = 0, m.eval(extra, model_completion=True).as_long()
            best = m
            while lo_ < hi_:
                mid = (lo_ + hi_) // 2
                m2 = ex_.model(z3.Or(*bad), z3.ULE(extra, mid))
                if m2 is not None:
                    best, hi_ = m2, m2.eval(extra, model_completion=True).as_long()
                else:
                    lo_ = mid + 1
            m = best
            pad = m.eval(extra, model_completion=True).as_long()
        found.append((m, reqs, pad, list(models.ENV.md5_calls)))
        return ("cex", reqs, outs)
    paths = ex.explore(h)
    harness.add_stats(res, ex)
    for p in paths:
        if p.exc is not None and p.model is not None:
            pad_ = None
            if item.params.get("arbitrary_memo_size"):
                pad_ = ev(p.model, z3.BitVec("memo_extra", 40))
            found.append((p.model, p.extra.get("reqs", []), pad_, list(p.extra.get("md5", []))))
    nval = 0
    for p in paths[::max(1, len(paths) // 25)]:
        if p.model is None or p.exc is not None or p.result[0] != "ok":
            continue
        reqs = [["ad"[d], ev(p.model, x)] for d, x in p.result[1]]
        _, rr = ipc.md5_table_for(p.model, cfg, family, reqs)
        want = [ev(p.model, o) for o in p.result[2]]
        if rr["results"] != want or rr["fresh"] != want:
            raise core.EngineError("concolic mismatch in history: reqs=%r symbolic=%r concrete=%r fresh=%r" % (reqs, want, rr["results"], rr["fresh"]))
        nval += 1
        if len(res["samples"]) < 2:
            res["samples"].append(dict(config=ipc.cfg_key(cfg), family=family, history=reqs, answers=want))
    res["validated"] += nval
    for m, reqs, pad, calls in found[:3]:
        rq = [["ad"[d], ev(m, x)] for d, x in reqs]
        table, rr = ipc.md5_table_for(m, cfg, family, rq)
        # every hash input of the symbolic path (it may include inputs the un-padded plain run above never asked for)
        for data, dig in calls:
            table.setdefault(ev(m, data), "%032x" % m.eval(dig, model_completion=True).as_long())
        args = dict(family=family, cfg=cfg, requests=rq, md5_table=table)
        if pad is not None:
            # real md5 for the padding history (the table only covers the two requests; misses fall back to real md5)
            args["pad_to"] = pad
        res["violations"].append(dict(description="an answer depends on the request history (differs from a fresh instance or raises)" + (
                                          "; needs a memo of at least %d further entries" % pad if pad else ""),
                                      witness=dict(history=rq, answers=rr["results"], fresh=rr["fresh"], cfg=ipc.cfg_key(cfg), memo_padding=pad), tags=["history"],
                                      replay=dict(replayer="ip_history", args=args)))
        res["status"] = "violated"
    res["vacuity"] = "witnessed" if any(p.model is not None for p in paths) else "VACUOUS"
    if res["vacuity"] != "witnessed":
        raise core.EngineError("no feasible path")


def history2(item, res):
    d1, d2 = item.params["dirs"]
    lo, hi = item.params["ms"]

    def build(ex_, W):
        x1 = z3.BitVec("x1", W)
        _, _, r1 = yield (d1, x1)
        orig, anon = (x1, r1) if d1 == 0 else (r1, x1)
        mm = lo + ex_.choice(hi - lo, "shared-prefix")
        x2 = ipc.related(orig if d2 == 0 else anon, mm, "x2_free", W)
        yield (d2, x2)
    _run_history(item, res, build)


def history3(item, res):
    d1, d2, d3 = item.params["dirs"]
    lo, hi = item.params["ms"]

    def build(ex_, W):
        x1 = z3.BitVec("x1", W)
        _, _, r1 = yield (d1, x1)
        orig, anon = (x1, r1) if d1 == 0 else (r1, x1)
        mm = lo + ex_.choice(hi - lo, "shared-prefix")
        x2 = ipc.related(orig if d2 == 0 else anon, mm, "x2_free", W)
        yield (d2, x2)
        m3 = ex_.choice(W + 1, "shared-prefix-3")
        x3 = ipc.related(orig if d3 == 0 else anon, m3, "x3_free", W)
        yield (d3, x3)
    _run_history(item, res, build)


def window(item, res):
    """H2: k requests whose addresses all lie in one window of w symbolic bits (undo requests: the image of the window)."""
    import ipaddress
    cfg, base, low, w = WINDOWS[item.params["win"]]
    dirs = item.params["dirs"]
    item.params = dict(item.params, cfg=cfg, family=4)
    W = 32
    basev = int(ipaddress.IPv4Address(base))
    hi_bits = W - low - w

    def build(ex_, W_):
        top = z3.BitVecVal(basev >> (low + w), hi_bits)
        img_top = None
        for i, d in enumerate(dirs):
            win = z3.BitVec("w%d" % i, w)
            lowbits = z3.BitVec("l%d" % i, low) if low else None
            if d == 0:
                parts = [top, win] + ([lowbits] if low else [])
            else:
                if img_top is None:
                    # the image of the concrete prefix: top bits of a fresh instance's answer for the base address
                    fr = ipc.out_bv(ipc.make(cfg, 4).anonymize(basev), W)
                    img_top = z3.Extract(W - 1, low + w, fr)
                parts = [img_top, win] + ([lowbits] if low else [])
            x = z3.simplify(z3.Concat(*parts))
            yield (d, x)
    _run_history(item, res, build)


HARNESSES = {"history2": history2, "history3": history3, "window": window}
