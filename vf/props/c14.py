"""C14 - Anonymization is total: no line content or salt can make it fail."""
import random
import time
import traceback
import z3

from .. import core, harness, models, forms
from ..core import Explorer, SStr, SInt
from ..harness import Item, fam, plain, ev
from . import secrets as sec
from . import c07

USES_REGEX = True
INFO = dict(
    functions=["replace_matching_item (incl. the replacement-template step of re.sub, modelled with CPython's parse_template semantics)", "_anonymize_value", "_extract_enclosing_text",
               "anonymize_ip_addr / _anonymize_match / make_addr with the live IPv4 / IPv6 patterns and the instrumented stdlib ipaddress parsers",
               "SensitiveWordAnonymizer.anonymize", "anonymize_as_numbers", "juniper_decrypt / juniper_nonrandom_encrypt", "FileAnonymizer.anonymize_io"],
    files=["netconan/sensitive_item_removal.py", "netconan/ip_anonymization.py", "netconan/utils/juniper_secrets.py", "netconan/anonymize_files.py"],
    assumptions=["characters are code points 0..255 without line terminators (\\n, \\r)", "an exception on any feasible path is a violation; witnesses come from the path's model",
                 "passlib runs for real on the concrete arguments netconan passes to it", "md5 is an uninterpreted function"],
    outside=["lines longer than the generated forms / shapes", "recursion-depth limits for very long bracket runs (runs up to the stated length are executed)", "code points above U+00FF",
             "the operating-system layer (undecodable bytes, I/O errors) -- C16"],
)
NOLT = frozenset(range(256)) - {10, 13}
SALTS = ["S", "", "_x", "é", " "]


def bounds(tier):
    return dict(wild_slots="every slot of every %s line form with %d fully symbolic Latin-1 characters (no line terminators), one slot at a time" % (
                    "base" if tier == "quick" else "generated", 1 if tier == "quick" else 2),
                hash_shapes="$1$ + salt of 0..10 arbitrary characters + $ + body; $9$ + 1..%d arbitrary characters, and $9$ strings of 7 characters with two arbitrary ones; $6$ strings with 1..%d arbitrary characters in the parameter / salt field after '', 'rounds=', 'rounds=5', 'rounds'; netconan salts %r" % (3 if tier == "quick" else 5, 2 if tier == "quick" else 3, SALTS),
                address_shapes="IPv6-looking tokens 'fe80:' / '::' / '1:' + up to %d arbitrary characters, IPv4-looking tokens with symbolic digits" % (3 if tier == "quick" else 4),
                enclosing_runs="bracket / quote runs up to 12 characters around a symbolic secret; runs of 300 and 3000 characters probed concretely in a fresh interpreter", words_and_as="sensitive-word and AS-number stages on lines of up to %d arbitrary characters" % (2 if tier == "quick" else 4))


def items(tier, seed):
    rnd = random.Random(seed)
    out = []
    fs, hv, st = c07._forms()
    base = {}
    for idx, f in enumerate(fs):
        base.setdefault(f.pat_index, idx)
    sel = sorted(base.values()) if tier == "quick" else list(range(len(fs)))
    n = 1 if tier == "quick" else 2
    for idx in sel:
        slots = [i for i, s_ in enumerate(fs[idx].segs) if not isinstance(s_, str)]
        for si in slots:
            out.append(Item("C14", "wild", dict(form=idx, slot=si, n=n), budget_s=400 if tier == "quick" else 2400, obligation="H1-wild-slots"))
    for sl in range(0, 11):
        out.append(Item("C14", "shape", dict(kind="md5", salt=sl, salt_idx=0), budget_s=300, obligation="H2-malformed-hashes"))
    for k in range(1, (3 if tier == "quick" else 5) + 1):   # k = 6 exceeds the item budget (measured: > 40 min per salt)
        for si in range(len(SALTS)):
            out.append(Item("C14", "shape", dict(kind="j9", k=k, salt_idx=si), budget_s=400 if tier == "quick" else 2400, obligation="H2-malformed-hashes"))
    for si in range(len(SALTS)):
        out.append(Item("C14", "shape", dict(kind="j9mix", salt_idx=si), budget_s=400 if tier == "quick" else 2400, obligation="H2-malformed-hashes"))
    for pre in ("", "rounds=", "rounds=5", "rounds"):
        for k in ((1, 2) if tier == "quick" else (1, 2, 3)):
            out.append(Item("C14", "shape", dict(kind="sha512", pre=pre, k=k, salt_idx=0), budget_s=400 if tier == "quick" else 2400, obligation="H2-malformed-hashes"))
    for runlen in (1, 4, 12):
        out.append(Item("C14", "shape", dict(kind="enclosing", run=runlen, salt_idx=0), budget_s=300, obligation="H3-enclosing-runs"))
    for n in (300, 3000):
        out.append(Item("C14", "long_runs", dict(n=n), budget_s=600, obligation="H3b-very-long-enclosing-runs"))
    for start in ("fe80:", "::", "1:", ""):
        for k in range(1, (3 if tier == "quick" else 4) + 1):
            out.append(Item("C14", "address", dict(family=6, start=start, k=k), budget_s=600 if tier == "quick" else 3000, obligation="H4-near-addresses"))
    for shape in ("d.d.d.d", "1d.2.3.2dd", "1.2.d.4/dd", "0d.00d.1.2"):
        out.append(Item("C14", "address", dict(family=4, shape=shape), budget_s=300, obligation="H4-near-addresses"))
    for k in range(1, 3 if tier == "quick" else 5):
        out.append(Item("C14", "words_as", dict(k=k), budget_s=400 if tier == "quick" else 2400, obligation="H5-word-and-as-stages"))
    return out


def _exc_site(e):
    tb = traceback.extract_tb(e.__traceback__)
    for fr in reversed(tb):
        if "/netconan/" in fr.filename:
            return "%s:%s" % (fr.filename.split("/netconan/")[-1], fr.name)
    return "?"


def _collect(res, paths, mk_text, replayer, rargs, label):
    from .. import replayers
    P = plain()
    groups = {}
    nval = 0
    for p in paths:
        if p.model is None:
            continue
        text = mk_text(p.model)
        if p.exc is not None:
            tag = "raises:%s:%s" % (type(p.exc).__name__, _exc_site(p.exc))
            groups.setdefault(tag, []).append(text)
        else:
            res["finals"] += 1
            res["finals_unsat"] += 1
            if nval < 12:
                rr = replayers.REPLAYERS[replayer](P, dict(rargs, a=text))
                if rr["violated"]:
                    raise core.EngineError("concolic mismatch: plain code raises on %r (%s) but the symbolic path returned" % (text, rr["detail"]))
                nval += 1
                if len(res["samples"]) < 2:
                    res["samples"].append(dict(input=text, output=rr["observed"]))
    res["validated"] += nval
    for tag, ws in groups.items():
        res["finals"] += 1
        res["violations"].append(dict(description="%s: %s" % (label, tag), witness=dict(input=ws[0], n_paths=len(ws)), tags=[tag, tag.rsplit(":", 1)[0]],
                                      replay=dict(replayer=replayer, args=dict(rargs, a=ws[0]))))
        res["status"] = "violated"
    res["vacuity"] = "witnessed" if any(p.model is not None for p in paths) else "VACUOUS"
    if res["vacuity"] != "witnessed":
        raise core.EngineError("no feasible path")


def wild(item, res):
    F = fam()
    fs, hv, st = c07._forms()
    f = fs[item.params["form"]]
    n, si = item.params["n"], item.params["slot"]
    vs = [z3.BitVec("w%d" % i, 8) for i in range(n)]
    cs = []
    for i, seg in enumerate(f.segs):
        if isinstance(seg, str):
            cs += [ord(c) for c in seg]
        elif i == si:
            cs += vs
        elif i == f.secret:
            cs += [ord(c) for c in getattr(f, "sample", "Zq8kW3xv")]
        else:
            cs += [ord(c) for c in forms._sample(seg)]
    cs.append(10)
    rx = sec.regexes()
    reserved = sec.reserved()
    ex = Explorer(deadline=time.time() + item.budget_s)

    def h(ex_):
        for c in vs:
            ex_.assume(core.in_set_expr(c, NOLT))
        return F.sir.replace_matching_item(rx, SStr.mk(list(cs)), models.SymDict(), "S", reserved)
    paths = ex.explore(h)
    harness.add_stats(res, ex)
    _collect(res, paths, lambda m: "".join(chr(c) if isinstance(c, int) else chr(ev(m, c)) for c in cs), "total_line", dict(stage="pwd", salt="S"),
             "secret stage on form p%d slot %d" % (f.pat_index, si))


def shape(item, res):
    F = fam()
    kind = item.params["kind"]
    salt = SALTS[item.params["salt_idx"]]
    if kind == "md5":
        sl = item.params["salt"]
        nsym = min(sl, 1)
        vs = [z3.BitVec("w%d" % i, 8) for i in range(nsym + 1)]
        # the salt *length* is what matters: one symbolic salt character, the rest concrete filler
        cs = [ord(c) for c in "enable secret 5 $1$"] + vs[:nsym] + [ord("a")] * (sl - nsym) + [36] + vs[nsym:] + [ord("h")] * 3 + [10]
        alpha = sec.NONSPACE
    elif kind == "j9mix":
        vs = [z3.BitVec("w%d" % i, 8) for i in range(2)]
        cs = [ord(c) for c in "set secret \"$9$"] + [vs[0]] + [ord(c) for c in "Ab1"] + [vs[1]] + [ord(c) for c in "zQ"] + [ord('"'), 10]
        alpha = NOLT
    elif kind == "sha512":
        # $6$<pre><k arbitrary characters>$ab$hhh : parameter / salt fields of a sha512-crypt string, arbitrary (also no further '$')
        vs = [z3.BitVec("w%d" % i, 8) for i in range(item.params["k"])]
        cs = [ord(c) for c in "set secret \"$6$" + item.params["pre"]] + vs + [ord(c) for c in "$ab$hhh"] + [ord('"'), 10]
        alpha = NOLT
    elif kind == "j9":
        k = item.params["k"]
        vs = [z3.BitVec("w%d" % i, 8) for i in range(k)]
        cs = [ord(c) for c in "set secret \"$9$"] + vs + [ord('"'), 10]
        alpha = NOLT
    else:
        run = item.params["run"]
        vs = [z3.BitVec("w%d" % i, 8) for i in range(2)]
        heads = "[{\"'" * 3
        cs = [ord(c) for c in "password "] + [ord(c) for c in heads[:run]] + vs + [ord(c) for c in ("]}\"'" * 3)[:run]] + [10]
        alpha = NOLT
    rx = sec.regexes()
    reserved = sec.reserved()
    ex = Explorer(deadline=time.time() + item.budget_s)

    def h(ex_):
        for i, c in enumerate(vs):
            ex_.assume(core.in_set_expr(c, alpha))
            if kind == "md5" and i < min(item.params["salt"], 1):
                ex_.assume(c != 36)
        return F.sir.replace_matching_item(rx, SStr.mk(list(cs)), models.SymDict(), salt, reserved)
    paths = ex.explore(h)
    harness.add_stats(res, ex)
    _collect(res, paths, lambda m: "".join(chr(c) if isinstance(c, int) else chr(ev(m, c)) for c in cs), "total_line", dict(stage="pwd", salt=salt), "secret stage on %s shape" % kind)


def address(item, res):
    F = fam()
    family = item.params["family"]
    if family == 6:
        start, k = item.params["start"], item.params["k"]
        vs = [z3.BitVec("w%d" % i, 8) for i in range(k)]
        cs = [ord(c) for c in "ip " + start] + vs + [ord(c) for c in " x\n"]
    else:
        shp = item.params["shape"]
        vs, cs = [], [ord(c) for c in "ip "]
        for ch in shp:
            if ch == "d":
                v = z3.BitVec("w%d" % len(vs), 8)
                vs.append(v)
                cs.append(v)
            else:
                cs.append(ord(ch))
        cs += [ord(c) for c in " x\n"]
    ex = Explorer(deadline=time.time() + item.budget_s)
    cfg = dict(prefixes=None, networks=None, B=8)
    from . import ipcommon as ipc

    def h(ex_):
        for c in vs:
            ex_.assume(core.in_set_expr(c, NOLT if family == 6 else sec.DIG))
        an = ipc.make(cfg, family)
        return F.ip.anonymize_ip_addr(an, SStr.mk(list(cs)), False)
    paths = ex.explore(h)
    harness.add_stats(res, ex)
    _collect(res, paths, lambda m: "".join(chr(c) if isinstance(c, int) else chr(ev(m, c)) for c in cs), "total_line", dict(stage="ip%d" % family, salt="S"), "IPv%d stage" % family)


def words_as(item, res):
    F = fam()
    k = item.params["k"]
    vs = [z3.BitVec("w%d" % i, 8) for i in range(k)]
    cs = list(vs) + [10]
    ex = Explorer(deadline=time.time() + item.budget_s)
    # anonymizers without symbolic input: constructed once (set iteration order is C10's / C13's subject)
    saved, core.EX = core.EX, None
    try:
        w = F.sir.SensitiveWordAnonymizer(["se", "x"], "S")
        a = F.sir.AsNumberAnonymizer(["1", "12"], "S")
    finally:
        core.EX = saved

    def h(ex_):
        for c in vs:
            ex_.assume(core.in_set_expr(c, NOLT))
        # the two stages are run separately on the raw line (their composition is C15's subject; feeding the symbolic
        # pseudonym digits of the word stage into the AS pattern only multiplies paths without adding failure modes)
        r1 = w.anonymize(SStr.mk(list(cs)))
        r2 = F.sir.anonymize_as_numbers(a, SStr.mk(list(cs)))
        return (r1, r2)
    paths = ex.explore(h)
    harness.add_stats(res, ex)
    _collect(res, paths, lambda m: "".join(chr(c) if isinstance(c, int) else chr(ev(m, c)) for c in cs), "total_line", dict(stage="words_as", salt="S"), "word / AS stages")


def long_runs(item, res):
    """H3b: very long runs of enclosing characters (the quantifier names them).  Lengths far beyond the symbolic bounds are
    probed concretely in a fresh un-instrumented interpreter (default recursion limit); the symbolic items above cover all
    contents for runs up to 12."""
    import json
    import os
    import subprocess
    import tempfile
    n = item.params["n"]
    here = os.path.dirname(os.path.dirname(os.path.dirname(os.path.abspath(__file__))))
    res["states"], res["transitions"] = 1, 1
    for head, tail in (("[", "]"), ("{", "}"), ('"', '"'), ("'", "'"), ('\\"', '\\"'), ("[{\"'", "'\"}]"), (" ", ";")):
        for tpl in ("password %s\n", "set secret %s\n", "key %s\n"):
            line = tpl % (head * n + "x7" + tail * n)
            spec = dict(replay=dict(replayer="total_line", args=dict(stage="pwd", salt="S", a=line)))
            with tempfile.NamedTemporaryFile("w", suffix=".json", delete=False) as f:
                json.dump(spec, f)
                path = f.name
            try:
                out = subprocess.run([os.environ.get("VF_PLAIN_PY", "/venv/bin/python"), os.path.join(here, "vf", "replay_main.py"), path], capture_output=True, text=True,
                                     timeout=300, env=dict(os.environ, VF_REPO=harness.REPO, PYTHONPATH=here))
            finally:
                os.unlink(path)
            res["finals"] += 1
            last = [l for l in out.stdout.splitlines() if l.startswith("REPLAY-RESULT ")]
            if not last:
                raise core.EngineError("long-run probe did not run: %s" % (out.stderr[-300:],))
            rr = json.loads(last[-1][len("REPLAY-RESULT "):])
            if rr["violated"]:
                tag = "raises:long-run:%s" % rr["observed"].split(":")[1] if ":" in str(rr["observed"]) else "raises:long-run"
                if not any(tag in v["tags"] for v in res["violations"]):
                    res["violations"].append(dict(description="a run of %d enclosing characters makes the secret stage fail: %s" % (n, str(rr["observed"])[:80]),
                                                  witness=dict(line=line[:40] + "...", run_length=n), tags=[tag, "raises"], replay=spec["replay"], confirmed=True))
                    res["status"] = "violated"
            else:
                res["finals_unsat"] += 1
                res["validated"] += 1
    res["samples"].append(dict(run_length=n, enclosing=["[", "{", "\"", "'", "\\\"", "mixed", "space/;"], forms=3))
    res["vacuity"] = "witnessed"


HARNESSES = {"wild": wild, "shape": shape, "address": address, "words_as": words_as, "long_runs": long_runs}
