"""Shared machinery for the IP-mapping properties (C01-C05, C17): configuration families, summaries of the real
`anonymize` / `deanonymize`, concolic validation against the plain code."""
import time
import z3

from .. import core, models, harness, replayers
from ..core import SInt, SStr, Explorer, Atom
from ..harness import fam, plain, ev

CLASSES = ["0.0.0.0/1", "128.0.0.0/2", "192.0.0.0/3", "224.0.0.0/4"]
RFC1918 = ["10.0.0.0/8", "172.16.0.0/12", "192.168.0.0/16"]
SALT = "S"


def cfg_key(cfg):
    return "pf=%s;nets=%s;B=%s" % ("default" if cfg["prefixes"] is None else ",".join(cfg["prefixes"]) or "none",
                                   "none" if cfg["networks"] is None else ",".join(cfg["networks"]), cfg["B"])


def configs_v4(tier):
    """Configuration family CF (see DESIGN.md section 3)."""
    prefix_sets = [[], list(CLASSES), None]
    net_sets = [None, list(RFC1918), ["11.22.33.44/32"]]
    bs = [0, 1, 8, 24, 32] if tier == "quick" else [0, 1, 2, 7, 8, 9, 12, 16, 23, 24, 25, 31, 32]
    out = []
    for pf in prefix_sets:
        for nets in net_sets:
            for b in bs:
                out.append(dict(prefixes=pf, networks=nets, B=b))
    if tier == "thorough":
        extra_pf = [["10.0.0.0/8", "10.1.0.0/16", "10.1.2.0/24"], ["0.0.0.0/0"], ["1.2.3.4/32"], ["128.0.0.0/1", "192.0.0.0/2"],
                    ["12.0.0.0/6", "200.1.2.128/25", "200.1.2.192/26", "77.0.0.0/31"]]
        for pf in extra_pf:
            for b in (0, 8, 30):
                out.append(dict(prefixes=pf, networks=None, B=b))
                out.append(dict(prefixes=pf, networks=["200.1.2.200/30", "8.8.8.8/32"], B=b))
    return out


def configs_v6(tier):
    bs = [0, 8, 32] if tier == "quick" else [0, 1, 8, 16, 32, 64, 127, 128]
    return [dict(prefixes=None, networks=None, B=b) for b in bs]


_TEMPLATES = {}


def make(cfg, family=4, F=None):
    """The real anonymizer for a configuration.  Construction has no symbolic input, so for the instrumented family it is
    executed once per process and configuration (outside any exploration: plain deterministic Python) and every later
    call returns a copy of that pristine object (own memo) -- identical to constructing it again."""
    if F is None or F is fam():
        import copy
        key = (family, cfg_key(cfg), cfg.get("salt", SALT))
        t = _TEMPLATES.get(key)
        if t is None:
            saved, core.EX = core.EX, None
            try:
                t = _TEMPLATES[key] = _construct(cfg, family, fam())
            finally:
                core.EX = saved
        an = copy.copy(t)
        an.cache = t.cache.clone()
        return an
    return _construct(cfg, family, F)


def _construct(cfg, family, F):
    if family == 4:
        pf, nets = cfg["prefixes"], cfg["networks"]
        return F.ip.IpAnonymizer(cfg.get("salt", SALT), None if pf is None else list(pf), None if nets is None else list(nets),
                                 preserve_suffix=cfg["B"])
    return F.ip.IpV6Anonymizer(cfg.get("salt", SALT), preserve_suffix=cfg["B"])


def width(family):
    return 32 if family == 4 else 128


def sym_addr(name, W):
    v = z3.BitVec(name, W)
    return v, SInt.unsigned(v)


class ImageOutOfRange(ValueError):
    """the code under test returned an integer that is not a W-bit address (recorded like an exception of the code)"""


def out_bv(r, W):
    """result of anonymize/deanonymize as a W-bit vector (int or SInt)"""
    if isinstance(r, int):
        if not 0 <= r < (1 << W):
            raise ImageOutOfRange("result out of range: %r" % r)
        return z3.BitVecVal(r, W)
    if r.lo < 0 or r.hi >= (1 << W):
        if core.EX is None or not core.EX.running:
            # outside an exploration (post-processing of an explored path whose condition already says "in range")
            return z3.Extract(W - 1, 0, r.ext(max(r.w, W + 1)))
        if core.EX.branch(z3.Or(r._cmp_expr(0, "lt"), r._cmp_expr(1 << W, "ge"))):
            raise ImageOutOfRange("result outside the %d-bit address space" % W)
        r = SInt(r.e, max(r.lo, 0), min(r.hi, (1 << W) - 1), r.w)
    return r.ubv(W)


def md5_replay_table(model, fn):
    """run fn() on the plain family with md5 realised from the model; returns (result, table)"""
    P = plain()
    table = {}
    dbl = models.model_md5(model, table)
    with replayers.patched_md5(P, dbl):
        r = fn(P)
    return r, table


class Summary:
    """All paths of one call of `method` on a fresh instance: [(pc, out_bv or None, exc)], over variable `var`."""

    def __init__(self, cfg, family, method="anonymize", varname="a", budget_s=120, res=None, validate=True):
        self.cfg, self.family, self.method = cfg, family, method
        W = self.W = width(family)
        self.var, arg = sym_addr(varname, W)
        ex = self.ex = Explorer(deadline=time.time() + budget_s)

        def h(_):
            an = make(cfg, family)
            r = getattr(an, method)(arg)
            out_bv(r, W)      # an image outside the address space is recorded as a failing path
            return r
        paths = ex.explore(h)
        self.cases = []
        self.validated = 0
        self.mismatches = []
        for p in paths:
            pc = z3.And(*p.pc) if p.pc else z3.BoolVal(True)
            if p.exc is not None:
                self.cases.append((pc, None, p.exc, p))
            else:
                self.cases.append((pc, out_bv(p.result, W), None, p))
            if validate and p.model is not None:
                a = ev(p.model, self.var)
                want = "EXC:%s" % type(p.exc).__name__ if p.exc is not None else ev(p.model, self.cases[-1][1])

                def run(P):
                    an = make(cfg, family, P)
                    try:
                        r_ = getattr(an, method)(a)
                        return r_ if 0 <= r_ < (1 << W) else "EXC:ImageOutOfRange"
                    except Exception as e:
                        return "EXC:%s" % type(e).__name__
                got, _ = md5_replay_table(p.model, run)
                if got == want:
                    self.validated += 1
                else:
                    self.mismatches.append(dict(a=a, symbolic=want, concrete=got))
        if res is not None:
            harness.add_stats(res, ex)
            res["validated"] += self.validated
            if self.mismatches:
                raise core.EngineError("concolic mismatch (engine vs un-instrumented code): %r" % self.mismatches[:2])

    def expr(self, var=None):
        """the call as one term over `var` (ITE over the path conditions); exception paths excluded by caller"""
        cases = [(pc, out) for pc, out, exc, _ in self.cases if exc is None]
        e = cases[-1][1]
        for pc, out in reversed(cases[:-1]):
            e = z3.If(pc, out, e)
        if var is not None and var is not self.var:
            e = z3.substitute(e, (self.var, var))
        return e

    def exc_cond(self, var=None):
        conds = [pc for pc, out, exc, _ in self.cases if exc is not None]
        e = z3.Or(*conds) if conds else z3.BoolVal(False)
        if var is not None and var is not self.var:
            e = z3.substitute(e, (self.var, var))
        return e

    def coverage_gap(self):
        """None if the path conditions cover every input, else a model"""
        s = z3.Solver()
        s.add(z3.Not(z3.Or(*[pc for pc, _, _, _ in self.cases])))
        r = s.check()
        if r == z3.unsat:
            return None
        if r == z3.sat:
            return s.model()
        raise core.Inconclusive("coverage query unknown")


def md5_table_for(model, cfg, family, requests):
    """hash table (text -> hex) that realises the model on the plain code for the given request list"""
    def run(P):
        return replayers.ip_requests(P, dict(family=family, cfg=cfg, requests=requests))
    r, table = md5_replay_table(model, run)
    return table, r


def final_check(res, solver_or_ex, expr, timeout_ms=120000):
    """discharge one final property query on a fresh solver; returns model or None. Counts it in res."""
    s = z3.Solver()
    s.set("timeout", timeout_ms)
    s.add(expr)
    t = time.time()
    r = s.check()
    res["solver_s"] = round(res["solver_s"] + time.time() - t, 3)
    res["queries"] += 1
    res["finals"] += 1
    if r == z3.unsat:
        res["unsat"] += 1
        res["finals_unsat"] += 1
        return None
    if r == z3.sat:
        res["sat"] += 1
        return s.model()
    res["unknown"] += 1
    raise core.Inconclusive("final query returned unknown (%s)" % s.reason_unknown())


def prefix_eq(x, y, m, W):
    return z3.Extract(W - 1, W - m, x) == z3.Extract(W - 1, W - m, y)


def cpl_violation(a, b, oa, ob, W):
    """z3 Bool: some prefix length m with (a,b agree on m bits) != (images agree on m bits)"""
    return z3.Or(*[prefix_eq(a, b, m, W) != prefix_eq(oa, ob, m, W) for m in range(1, W + 1)])


def related(base, m, name, W):
    """A W-bit term sharing exactly the top m bits with `base`: top m bits of base, then the negated next bit, then
    fresh free bits (m == W: base itself).  Ranging m over 0..W covers every address exactly once (case split on the
    common-prefix length with `base`), and makes the shared prefix *syntactically* shared, so that hash terms coincide."""
    if m >= W:
        return base
    parts = []
    if m > 0:
        parts.append(z3.Extract(W - 1, W - m, base))
    parts.append(~z3.Extract(W - m - 1, W - m - 1, base))
    if W - m - 1 > 0:
        parts.append(z3.BitVec(name, W - m - 1))
    return z3.simplify(z3.Concat(*parts)) if len(parts) > 1 else z3.simplify(parts[0])


def mask_spec(x):
    """independent specification of 'netmask- or wildcard-shaped': ones then zeros, or zeros then ones (32 bit)"""
    consts = set()
    for k in range(33):
        consts.add((1 << k) - 1)
        consts.add(0xFFFFFFFF ^ ((1 << k) - 1))
    return z3.Or(*[x == z3.BitVecVal(c, 32) for c in sorted(consts)])


def in_networks_spec(x, networks, W=32):
    import ipaddress
    conds = []
    for n in networks or []:
        net = ipaddress.ip_network(n)
        L = net.prefixlen
        if L == 0:
            conds.append(z3.BoolVal(True))
        else:
            conds.append(z3.Extract(W - 1, W - L, x) == z3.BitVecVal(int(net.network_address) >> (W - L), L))
    return z3.Or(*conds) if conds else z3.BoolVal(False)


def inject(an, F, family, xbv):
    """make `an.make_addr` return the already-parsed symbolic address (instance attribute shadows the classmethod)"""
    W = width(family)
    cls = F.ipaddress.IPv4Address if family == 4 else F.ipaddress.IPv6Address

    def make_addr(token):
        if isinstance(token, str):
            return type(an).make_addr(token)
        if not (isinstance(token, SStr) and len(token.cs) == 1 and isinstance(token.cs[0], Atom)):
            raise core.EngineError("injected make_addr called with unexpected text")
        return cls(SInt.unsigned(token.cs[0].e))
    an.make_addr = make_addr


def token(family, bv):
    return SStr([Atom("ipv4" if family == 4 else "ipv6", bv)])


def tok_value(t, W):
    if isinstance(t, str):
        import ipaddress
        return z3.BitVecVal(int(ipaddress.ip_address(t)), W)
    if isinstance(t, SStr) and len(t.cs) == 1 and isinstance(t.cs[0], Atom):
        return t.cs[0].e
    raise core.EngineError("_anonymize_match returned something that is not a single rendered address: %r" % (t,))



def mask_lemma(res):
    """Lemma (all 2^32 values): the real IpAnonymizer._is_mask(x) <=> the independent 66-constant specification.
    Discharged by symbolic execution of the real method on an unconstrained 32-bit variable."""
    x, sx = sym_addr("m", 32)
    ex = Explorer(deadline=time.time() + 60)
    bad = []

    def h(ex_):
        an = make(dict(prefixes=[], networks=None, B=0), 4)
        r = an._is_mask(sx)
        if not isinstance(r, bool):
            raise core.EngineError("_is_mask did not return a bool")
        res["finals"] += 1
        m = ex_.model(mask_spec(x) != z3.BoolVal(r))
        if m is None:
            res["finals_unsat"] += 1
        else:
            bad.append(ev(m, x))
        return r
    paths = ex.explore(h)
    harness.add_stats(res, ex)
    if {p.result for p in paths if p.exc is None} != {True, False}:
        bad.append("not both outcomes reachable")
    return bad




def shards(n, k):
    """split range(n) into k contiguous [lo, hi) pieces"""
    k = max(1, min(k, n))
    out, lo = [], 0
    for i in range(k):
        hi = lo + (n - lo) // (k - i)
        out.append((lo, hi))
        lo = hi
    return out


def make_with_symbolic_prefix(ex_, lengths, B, extra_prefixes=()):
    """The real IpAnonymizer constructed *inside* the path with user prefixes whose network bits are symbolic:
    each entry is the tuple (network, length) form that ipaddress.ip_network accepts, network = L symbolic top bits
    followed by zeros.  Returns (anonymizer, [(top_bits_bv, L), ...])."""
    F = fam()
    plist, tops = [], []
    for i, L in enumerate(lengths):
        if L == 0:
            top = None
            net = 0
        else:
            top = z3.BitVec("pfx%d" % i, L)
            net = SInt.unsigned(z3.Concat(top, z3.BitVecVal(0, 32 - L)) if L < 32 else top)
        plist.append((net, L))
        tops.append((top, L))
    an = F.ip.IpAnonymizer(SALT, list(extra_prefixes) + plist, None, preserve_suffix=B)
    return an, tops


def in_sym_prefix(x, top, L, W=32):
    if L == 0:
        return z3.BoolVal(True)
    return z3.Extract(W - 1, W - L, x) == top
