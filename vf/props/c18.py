"""C18 - Juniper $9$ codec round-trips for every plaintext and salt."""
import time
import z3

from .. import core, harness, models
from ..core import Explorer, SInt, SStr
from ..harness import Item, fam, plain, ev

USES_REGEX = True
INFO = dict(
    functions=["netconan.utils.juniper_secrets.juniper_nonrandom_encrypt", "juniper_decrypt", "_gap_encode", "_gap", "_gap_decode", "_nibble", "_fixedc",
               "module tables EXTRA / ALPHA_NUM / NUM_ALPHA / ENCODING and the VALID pattern (interpreted symbolically)"],
    files=["netconan/utils/juniper_secrets.py"],
    assumptions=["characters are code points 0..255 (the property's own domain)", "table look-ups by symbolic keys are encoded as if-then-else terms after one membership fork",
                 "the VALID regular expression is executed by the engine's sre interpreter (validated against CPython in the self-test)"],
    outside=["whole-function round trips longer than the stated plaintext length (the per-position step lemma H1 covers the chain for every length)",
             "salt strings longer than one character only through their first character (the code reads salt[0])"],
)
ALPHABET = "QzF3n6/9CAtpu0O" "B1IREhcSyrleKvMW8LXx" "7N-dVbwsY2g4oaJZGUDj" "iHkq.mPf5T"   # Crypt::Juniper families, written independently
FAMILY_OF = {}
for _i, _f in enumerate(["QzF3n6/9CAtpu0O", "B1IREhcSyrleKvMW8LXx", "7N-dVbwsY2g4oaJZGUDj", "iHkq.mPf5T"]):
    for _c in _f:
        FAMILY_OF[_c] = _i
WEIGHTS = [[1, 4, 32], [1, 16, 32], [1, 8, 32], [1, 64], [1, 32], [1, 4, 16, 128], [1, 32, 64]]


def bounds(tier):
    n = 8 if tier == "quick" else 14
    return dict(step_lemma="all 7 table positions x all 65 previous characters x all 256 plaintext characters",
                round_trip="plaintext lengths 0..%d, all characters 0..255, salt: every Latin-1 first character (alphabet or not) and the empty salt" % n,
                malformed="all strings of length 0..%d over Latin-1 (decrypt returns or raises ValueError; returns only for well-formed complete strings)" % (9 if tier == "quick" else 11))


def items(tier, seed):
    out = [Item("C18", "step", dict(pos=j), budget_s=120, obligation="H1-step-lemma") for j in range(len(plain().jun.ENCODING))]
    n = 8 if tier == "quick" else 14
    for k in range(0, n + 1):
        out.append(Item("C18", "roundtrip", dict(n=k, salt="sym"), budget_s=300 if tier == "quick" else 2400, obligation="H2-round-trip"))
    out.append(Item("C18", "roundtrip", dict(n=2, salt="empty"), budget_s=60, obligation="H2-round-trip"))
    out.append(Item("C18", "roundtrip", dict(n=2, salt="none"), budget_s=60, obligation="H2-round-trip"))
    for k in range(0, (9 if tier == "quick" else 11) + 1):
        out.append(Item("C18", "malformed", dict(n=k), budget_s=300 if tier == "quick" else 2400, obligation="H3-malformed"))
    return out


def _alpha_set():
    return frozenset(ord(c) for c in ALPHABET)


def step(item, res):
    """H1: one encoding step from an arbitrary alphabet character and an arbitrary plaintext character is inverted by the
    decoder's gap computation, and emits len(weights) alphabet characters."""
    j = item.params["pos"]
    J = fam().jun
    ex = Explorer(deadline=time.time() + item.budget_s)
    prevc = z3.BitVec("prev", 8)
    pc = z3.BitVec("p", 8)
    found = []

    def h(ex_):
        ex_.assume(core.in_set_expr(prevc, _alpha_set()))
        prev = SStr([prevc])
        p = SStr([pc])
        enc = J.ENCODING[j]
        out = J._gap_encode(p, prev, enc)
        out = SStr.of(out)
        bad = [z3.BoolVal(len(out.cs) != len(enc))]
        for c in out.cs:
            bad.append(z3.Not(core.in_set_expr(c, _alpha_set())) if not isinstance(c, int) else z3.BoolVal(c not in _alpha_set()))
        # decode with the real helpers, chaining from prev like juniper_decrypt does
        gaps = []
        pr = prev
        for i in range(len(out.cs)):
            ch = SStr.mk([out.cs[i]])
            gaps.append(J._gap(pr, ch))
            pr = ch
        dec = J._gap_decode(gaps, enc)
        bad.append(z3.Not(SStr.of(dec).eq_expr(p)))
        res["finals"] += 1
        m = ex_.model(z3.Or(*bad))
        if m is None:
            res["finals_unsat"] += 1
            return ("ok", out)
        found.append((ev(m, prevc), ev(m, pc)))
        return ("cex", out)
    paths = ex.explore(h)
    harness.add_stats(res, ex)
    P = plain().jun
    for p in paths:
        if p.exc is not None:
            found.append((ev(p.model, prevc), ev(p.model, pc)) if p.model is not None else (None, None))
        elif p.model is not None:
            pv, cv = chr(ev(p.model, prevc)), chr(ev(p.model, pc))
            got = P._gap_encode(cv, pv, P.ENCODING[j])
            if got != ev(p.model, p.result[1]):
                raise core.EngineError("concolic mismatch in _gap_encode: %r %r -> %r vs %r" % (cv, pv, got, ev(p.model, p.result[1])))
            res["validated"] += 1
            if len(res["samples"]) < 2:
                res["samples"].append(dict(position=j, prev=pv, plain_char=ord(cv), encoded=got))
    for pv, cv in found[:2]:
        res["violations"].append(dict(description="encoding step at table position %d is not inverted by the decoder" % j, witness=dict(prev=pv, char=cv, pos=j),
                                      tags=["step"], replay=dict(replayer="jun_step", args=dict(pos=j, prev=pv, char=cv))))
        res["status"] = "violated"
    res["vacuity"] = "witnessed" if any(p.model is not None for p in paths) else "VACUOUS"
    if res["vacuity"] != "witnessed":
        raise core.EngineError("no feasible path")


def roundtrip(item, res):
    """H2: juniper_decrypt(juniper_nonrandom_encrypt(p, salt)) == p and the crypt text is well-formed."""
    n, saltmode = item.params["n"], item.params["salt"]
    J = fam().jun
    ex = Explorer(deadline=time.time() + item.budget_s)
    ps = [z3.BitVec("p%d" % i, 8) for i in range(n)]
    sc = z3.BitVec("salt0", 8)
    found = []

    def h(ex_):
        p = SStr.mk(list(ps))
        salt = SStr([sc]) if saltmode == "sym" else ("" if saltmode == "empty" else None)
        crypt = J.juniper_nonrandom_encrypt(p, salt)
        back = J.juniper_decrypt(crypt)
        cs = SStr.of(crypt).cs
        wf = [z3.BoolVal(len(cs) >= 7 and cs[:3] == [36, 57, 36])]
        for c in cs[3:]:
            wf.append(core.char_in_expr(c, _alpha_set()))
        # one query for well-formedness and one per plaintext character (they are independent sub-problems)
        bs = SStr.of(back).cs
        qs = [z3.Not(z3.And(*wf))]
        if len(bs) != n:
            qs.append(z3.BoolVal(True))
        else:
            qs += [core._cbv(bs[i]) != ps[i] for i in range(n)]
        for q in qs:
            res["finals"] += 1
            m = ex_.model(q)
            if m is None:
                res["finals_unsat"] += 1
            else:
                found.append(m)
                return ("cex", crypt, back, m)
        return ("ok", crypt, back)
    paths = ex.explore(h)
    harness.add_stats(res, ex)
    P = plain().jun
    groups = {}
    for p in paths:
        if p.model is None:
            continue
        mdl = p.result[3] if (p.exc is None and p.result[0] == "cex") else p.model
        pv = "".join(chr(ev(mdl, c)) for c in ps)
        sv = chr(ev(mdl, sc)) if saltmode == "sym" else ("" if saltmode == "empty" else None)
        if p.exc is not None or p.result[0] == "cex":
            kind = type(p.exc).__name__ if p.exc is not None else "mismatch"
            tag = "roundtrip:%s:%s" % (kind, "empty-plaintext" if n == 0 and kind == "ValueError" else ("salt-not-in-alphabet" if kind == "KeyError" else ("empty-salt" if kind == "IndexError" else "other")))
            groups.setdefault(tag, []).append((pv, sv, kind))
            continue
        try:
            c2 = P.juniper_nonrandom_encrypt(pv, sv)
            b2 = P.juniper_decrypt(c2)
        except Exception as e:
            raise core.EngineError("concolic mismatch: plain code raised %r for %r/%r" % (e, pv, sv))
        if c2 != ev(p.model, p.result[1]) or b2 != pv:
            raise core.EngineError("concolic mismatch in round trip: %r/%r -> %r vs %r" % (pv, sv, c2, ev(p.model, p.result[1])))
        res["validated"] += 1
        if len(res["samples"]) < 2:
            res["samples"].append(dict(plaintext=[ord(c) for c in pv], salt=sv, crypt=c2))
    for tag, ws in groups.items():
        pv, sv, kind = ws[0]
        res["violations"].append(dict(description="encrypt/decrypt round trip fails (%s) for plaintext of length %d, salt %r" % (kind, n, sv),
                                      witness=dict(plaintext=[ord(c) for c in pv], salt=sv, n_paths=len(ws)), tags=[tag],
                                      replay=dict(replayer="jun_roundtrip", args=dict(plaintext=[ord(c) for c in pv], salt=sv))))
        res["status"] = "violated"
    res["vacuity"] = "witnessed" if res["validated"] or saltmode != "sym" else "VACUOUS"
    if res["vacuity"] != "witnessed" and not groups:
        raise core.EngineError("no feasible successful path")


def wellformed_spec(cs):
    """Independent structural oracle for a concrete crypt string: $9$ + >=4 alphabet chars, complete groups."""
    s = "".join(map(chr, cs))
    if not s.startswith("$9$") or len(s) - 3 < 4 or any(c not in FAMILY_OF for c in s[3:]):
        return False
    rest = len(s) - 3 - 1 - (3 - FAMILY_OF[s[3]])
    if rest < 0:
        return True   # filler truncated: the real code slices silently (nothing left to decode) -- accepted shape
    pos = 0
    while rest > 0:
        rest -= len(WEIGHTS[pos % 7])
        pos += 1
    return rest == 0


def malformed(item, res):
    """H3: decrypt of an arbitrary string returns or raises ValueError, and returns only for well-formed complete input."""
    n = item.params["n"]
    J = fam().jun
    ex = Explorer(deadline=time.time() + item.budget_s)
    xs = [z3.BitVec("x%d" % i, 8) for i in range(n)]

    def h(ex_):
        return J.juniper_decrypt(SStr.mk(list(xs)))
    paths = ex.explore(h)
    harness.add_stats(res, ex)
    P = plain().jun
    groups = {}
    for p in paths:
        if p.model is None:
            continue
        xv = [ev(p.model, c) for c in xs]
        text = "".join(map(chr, xv))
        res["finals"] += 1
        if p.exc is not None:
            ok = isinstance(p.exc, ValueError)
            kind = type(p.exc).__name__
        else:
            ok = wellformed_spec(xv)
            kind = "returned-for-malformed"
        try:
            got = ("ret", P.juniper_decrypt(text))
        except Exception as e:
            got = ("exc", type(e).__name__)
        want = ("exc", type(p.exc).__name__) if p.exc is not None else ("ret", ev(p.model, p.result))
        if got != want:
            raise core.EngineError("concolic mismatch in decrypt(%r): %r vs %r" % (text, got, want))
        res["validated"] += 1
        if ok:
            res["finals_unsat"] += 1
            if len(res["samples"]) < 3 and p.exc is None:
                res["samples"].append(dict(input=text, decrypted=[ord(c) for c in got[1]]))
        else:
            groups.setdefault("malformed:%s" % kind, []).append(text)
    for tag, ws in groups.items():
        res["violations"].append(dict(description="juniper_decrypt on malformed input: %s" % tag, witness=dict(input=[ord(c) for c in ws[0]], text=ws[0], n_paths=len(ws)), tags=[tag],
                                      replay=dict(replayer="jun_malformed", args=dict(input=[ord(c) for c in ws[0]]))))
        res["status"] = "violated"
    res["vacuity"] = "witnessed" if paths else "VACUOUS"


HARNESSES = {"step": step, "roundtrip": roundtrip, "malformed": malformed}
