"""C07 - No part of a secret survives: output is independent of secret content."""
import random
import time
import z3

from .. import core, harness, models, forms
from ..core import Explorer, SStr
from ..harness import Item, fam, plain, ev
from . import secrets as sec

USES_REGEX = True
INFO = dict(
    functions=["replace_matching_item", "_anonymize_value", "_check_sensitive_item_format", "_extract_enclosing_text", "_split_line",
               "generate_default_sensitive_item_regexes + every pattern of default_pwd_regexes.py / sensitive_item_removal.py (interpreted symbolically)",
               "juniper_decrypt / juniper_nonrandom_encrypt", "FileAnonymizer.anonymize_io (logging obligation)"],
    files=["netconan/sensitive_item_removal.py", "netconan/default_pwd_regexes.py", "netconan/anonymize_files.py", "netconan/utils/juniper_secrets.py"],
    assumptions=["secret characters: printable non-space ASCII without quote/terminator characters (the property's quantifier)",
                 "the secret is assumed not to be a reserved word (reserved secrets are kept by design, C10)",
                 "format classes in the oracle are independent character-level predicates (numeric, hex, type-7 shape, $1$ with salt length, $6$, $9$ well-formed)",
                 "passlib type7/md5 hashing runs for real on concrete pseudonyms; sha512-crypt's random salt is an arbitrary environment value",
                 "line forms are generated from the current pattern list (each-choice over alternations/optional parts) plus the repo's own test templates"],
    outside=["free secrets of 6 or more characters that start with $1$ (degenerate md5-crypt strings with an empty salt)", "line forms beyond the generated family", "secrets longer than the stated bound", "secrets containing quote/terminator characters or equal to a reserved word"],
)

SUFFIXES = ["", " extra", " 7 more"]


def _forms():
    P = plain()
    return forms.all_forms(P, harness.REPO)


_BASE = {}


def baseline():
    """the committed snapshot of the pinned tree's recognised forms (tools/gen_baseline.py); specification data"""
    if not _BASE:
        import json, os, re
        d = json.load(open(os.path.join(os.path.dirname(__file__), "..", "data", "baseline_forms.json")))
        _BASE.update(d)
        _BASE["rx"] = [re.compile(p_, fl) for p_, fl in d["patterns"]]
    return _BASE


def baseline_missing():
    """indices of baseline forms that the live pattern list no longer generates (empty on the pinned tree)"""
    fs, hv, st = _forms()
    live = {(f.parts()[0], f.parts()[2]) for f in fs}
    return [i for i, b in enumerate(baseline()["forms"]) if (b["pre"], b["suf"]) not in live]


def _recognised_baseline(line_):
    norm = " ".join(line_.split())
    return any(c.search(norm) for c in baseline()["rx"])


def bounds(tier):
    return dict(value_level="all secrets of length 1..%d over the secret alphabet; shaped $1$ (salt 1..4), $6$, $9$ inputs with symbolic bodies" % (4 if tier == "quick" else 6),
                line_level="generated line forms (%s), secret slot of %s symbolic characters, trailing context %r" % (
                    "base form of every pattern + seed-sampled variants" if tier == "quick" else "all each-choice forms of every pattern + harvested test templates",
                    "2" if tier == "quick" else "2 (all forms), 1..3 (base forms), 4 (base forms of the first 36 patterns)", SUFFIXES),
                hash_token_context="a $1$ / $9$ token with %s symbolic characters after the keywords %r in the context of %s" % (
                    "2", KEYWORDS, "4 sampled forms" if tier == "quick" else "every base form"))


def items(tier, seed):
    out = []
    nmax = 4 if tier == "quick" else 6
    for n in range(1, nmax + 1):
        out.append(Item("C07", "value", dict(shape="free", n=n), budget_s=300 if tier == "quick" else 2400, obligation="H1-value-level"))
    for sl in (1, 2, 4, 8):
        out.append(Item("C07", "value", dict(shape="md5", salt=sl, k=2), budget_s=300, obligation="H1-value-level"))
    out.append(Item("C07", "value", dict(shape="sha512", k=3), budget_s=300, obligation="H1-value-level"))
    for k in (4, 5):
        out.append(Item("C07", "value", dict(shape="j9", k=k), budget_s=300, obligation="H1-value-level"))
    fs, hv, st = _forms()
    rnd = random.Random(seed)
    base = {}
    for idx, f in enumerate(fs):
        base.setdefault(f.pat_index, idx)
    if tier == "quick":
        chosen = sorted(base.values())
        others = [i for i in range(len(fs)) if i not in set(chosen)]
        chosen += sorted(rnd.sample(others, min(len(others), 16)))
        for idx in chosen:
            out.append(Item("C07", "line", dict(form=idx, n=2, suffix=0), budget_s=400, obligation="H2-line-level"))
        for idx in sorted(rnd.sample(sorted(base.values()), 12)):
            out.append(Item("C07", "line", dict(form=idx, n=2, suffix=1), budget_s=400, obligation="H3-trailing-context"))
        for hi in sorted(rnd.sample(range(len(hv)), min(len(hv), 12))):
            out.append(Item("C07", "line", dict(harvested=hi, n=2, suffix=0), budget_s=400, obligation="H2-line-level"))
    # line forms of the pinned tree that the live pattern list no longer produces: each explored on its own
    for bi in baseline_missing()[:60]:
        out.append(Item("C07", "line", dict(corpus=bi, n=2, suffix=0), budget_s=400 if tier == "quick" else 2400, obligation="H2b-baseline-forms-still-recognised"))
    early = [i for i in sorted(base.values()) if fs[i].pat_index < 36]
    hsel = sorted(base.values()) if tier == "thorough" else sorted(rnd.sample(early, 3)) + [i for i, f in enumerate(fs) if f.pat_index == 5][:1]
    for idx in hsel:
        for kw in range(len(KEYWORDS) if tier == "thorough" else 1):
            for kind in ("md5", "j9"):
                # 4 symbolic characters cost 2-40 min per item (measured): both tiers use 2
                out.append(Item("C07", "hashctx", dict(form=idx, kw=kw, kind=kind, nsym=2), budget_s=400 if tier == "quick" else 2400,
                                obligation="H4-hash-token-in-foreign-context"))
    if tier != "quick":
        bases = set(base.values())
        for idx in range(len(fs)):
            ns = (1, 2, 3) if idx in bases else (2,)
            if fs[idx].parts()[0].endswith(("$1$", "$6$", "$9$")):
                # catch-all forms whose slot is the body of a hash token: from 3 characters on the slot content decides the token's
                # format class (e.g. "$1$" + "l$f" is md5-crypt with salt "l"), which the slot-level class oracle cannot see; those
                # shapes are the subject of the shaped value items (H1) and of H4
                ns = tuple(n_ for n_ in ns if n_ <= 2)
            for n in ns:
                out.append(Item("C07", "line", dict(form=idx, n=n, suffix=0), budget_s=2400, obligation="H2-line-level"))
            if idx in bases:
                for sfx in (1, 2):
                    out.append(Item("C07", "line", dict(form=idx, n=2, suffix=sfx), budget_s=2400, obligation="H3-trailing-context"))
        for idx in sorted(bases):
            if fs[idx].pat_index < 36:
                out.append(Item("C07", "line", dict(form=idx, n=4, suffix=0), budget_s=3000, obligation="H2-line-level"))
        for hi in range(len(hv)):
            out.append(Item("C07", "line", dict(harvested=hi, n=2, suffix=0), budget_s=2400, obligation="H2-line-level"))
    return out


def _shape_cs(params):
    shape = params["shape"]
    if shape == "free":
        cs = sec.secret_vars(params["n"])
        return cs, cs
    if shape == "md5":
        v = sec.secret_vars(params["salt"] + params["k"])
        cs = [ord(c) for c in "$1$"] + v[:params["salt"]] + [36] + v[params["salt"]:]
        return cs, v
    if shape == "sha512":
        v = sec.secret_vars(params["k"])
        return [ord(c) for c in "$6$"] + v, v
    if shape == "j9":
        v = sec.secret_vars(params["k"])
        return [ord(c) for c in "$9$"] + v, v
    raise ValueError(shape)


def _report(res, viol, mk_text, describe, replayer, extra_args, limit=4):
    """turn independence violations into replayable pairs"""
    seen = set()
    for v in viol:
        m = v["model"]
        if m is None:
            continue
        t1 = mk_text(m, None)
        t2 = mk_text(m, v.get("other")) if v.get("other") is not None else None
        rec = _recognised_baseline if extra_args.get("corpus") else _recognised
        if extra_args.get("mode") == "line" and not (rec(t1) and (t2 is None or rec(t2))):
            res["notes"].append("witness outside the recognised line forms skipped: %r" % t1)
            continue
        tag = "%s:%s" % (v["kind"], describe(t1))
        if tag in seen:
            continue
        seen.add(tag)
        res["violations"].append(dict(description="%s (%s)" % (v["detail"], describe(t1)), witness=dict(input=t1, other=t2), tags=[tag, v["kind"]],
                                      replay=dict(replayer=replayer, args=dict(extra_args, a=t1, b=t2))))
        res["status"] = "violated"
        if len(seen) >= limit:
            break


_PLAIN_RX = []


def _recognised(line):
    """the un-instrumented pattern list matches the (whitespace-normalised) line: it is a recognised secret-bearing form"""
    P = plain()
    if not _PLAIN_RX:
        _PLAIN_RX.extend(c for grp in P.sir.generate_default_sensitive_item_regexes() for c, _ in grp)
    norm = " ".join(line.split())
    return any(c.search(norm) for c in _PLAIN_RX)


def _cell_name(text):
    import re
    if re.fullmatch(r"[0-9]+", text):
        return "numeric"
    if re.fullmatch(r"[01][0-9]([0-9a-fA-F]{2})+", text):
        return "type7"
    if re.fullmatch(r"[0-9a-fA-F]+", text):
        return "hex"
    if re.fullmatch(r"\$1\$[^$\s]+\$\S+", text):
        return "md5"
    if text.startswith("$6$") and len(text) > 3:
        return "sha512"
    if text.startswith("$9$") and len(text) > 3:
        return "j9"
    return "text"


def value(item, res):
    """H1: _anonymize_value on a symbolic secret."""
    F = fam()
    cs, vs = _shape_cs(item.params)
    reserved = sec.reserved()

    def assume(ex_):
        sec.in_alphabet(ex_, vs)
        if item.params["shape"] == "md5":
            for c in vs[:item.params["salt"]]:
                ex_.assume(c != 36)      # the salt part of the shape contains no '$' (so the shape has exactly this salt length)
        sec.not_reserved(ex_, cs)
        if item.params["shape"] == "free" and len(vs) >= 6:
            # from 6 characters on a free secret can spell a degenerate md5-crypt string with an *empty* salt ("$1$$$p"), which
            # the tool classifies as md5 with salt length 0; $1$ strings are the subject of the shaped items (salt length >= 1),
            # the empty-salt corner is outside the claim
            ex_.assume(z3.Not(SStr(list(vs[:3])).eq_expr("$1$")))

    def fn(ex_):
        return F.sir._anonymize_value(SStr.mk(list(cs)), models.SymDict(), reserved, "S")
    run = sec.Run(fn, item.budget_s, res, assume)
    _finish(item, res, run, cs, vs, lambda m, other: _text(m, cs, vs, other), "value", dict(mode="value"), lambda t: _cell_name(t), full=cs)
    # length independence: the same format class must give the same replacement for a secret one character shorter
    if item.params["shape"] == "free" and item.params["n"] >= 2:
        cs2 = sec.secret_vars(item.params["n"] - 1, "u")

        def assume2(ex_):
            sec.in_alphabet(ex_, cs2)
            sec.not_reserved(ex_, cs2)
        run2 = sec.Run(lambda ex_: F.sir._anonymize_value(SStr.mk(list(cs2)), models.SymDict(), reserved, "S"), item.budget_s, res, assume2)

        def table(r, vars_):
            out = {}
            for p in r.paths:
                if p.model is None or p.exc is not None:
                    continue
                t = "".join(chr(ev(p.model, c)) for c in vars_)
                out.setdefault(_cell_name(t), {})[sec.result_key(p.result)] = t
            return out
        t1, t2 = table(run, vs), table(run2, cs2)
        for cell in set(t1) & set(t2):
            if cell in ("md5", "j9", "type7"):
                continue   # these formats legitimately depend on length-related structure (salt length, validity, parity)
            res["finals"] += 1
            if set(t1[cell]) != set(t2[cell]):
                a, b = list(t1[cell].values())[0], list(t2[cell].values())[0]
                res["violations"].append(dict(description="replacement depends on the length of the secret (class %s)" % cell, witness=dict(input=a, other=b),
                                              tags=["length-dependent:%s" % cell, "class-dependent"], replay=dict(replayer="secret_pair", args=dict(mode="value", a=a, b=b))))
                res["status"] = "violated"
            else:
                res["finals_unsat"] += 1


def _text(m, cs, vs, other):
    if other is None:
        return "".join(chr(c) if isinstance(c, int) else chr(ev(m, c)) for c in cs)
    mp = {str(v): o for v, o in zip(vs, other)}
    return "".join(chr(c) if isinstance(c, int) else chr(mp[str(c)]) for c in cs)


def _finish(item, res, run, cs, vs, mk_text, label, rargs, describe, full=None):
    P = plain()
    excs = [p for p in run.paths if p.exc is not None]
    viol, groups = sec.independence(res, run, vs, label, full=full)
    # second witness for 'survives': another secret on the same path with a different output
    _report(res, viol, mk_text, describe, "secret_pair", rargs)
    for p in excs[:3]:
        if p.model is not None:
            t1 = mk_text(p.model, None)
            res["violations"].append(dict(description="processing raises %s" % type(p.exc).__name__, witness=dict(input=t1), tags=["raises:%s" % type(p.exc).__name__, "raises"],
                                          replay=dict(replayer="secret_pair", args=dict(rargs, a=t1, b=None))))
            res["status"] = "violated"
    # logging obligation (H5): records at INFO or above must not carry secret symbols
    names = {str(c) for c in vs}
    for p in run.paths:
        for lvl, msg, args in p.extra.get("log", []):
            if lvl >= 20:
                for a in args:
                    if isinstance(a, SStr) and (sec.symbols_of(a) & names) and p.model is not None:
                        t1 = mk_text(p.model, None)
                        res["violations"].append(dict(description="log record at level %d carries secret characters" % lvl, witness=dict(input=t1), tags=["log-leak"],
                                                      replay=dict(replayer="secret_log", args=dict(rargs, a=t1))))
                        res["status"] = "violated"
                        break
    # concolic validation + samples
    from .. import replayers
    nval = 0
    for p in run.paths[::max(1, len(run.paths) // 20)]:
        if p.model is None or p.exc is not None:
            continue
        t1 = mk_text(p.model, None)
        got = replayers.secret_run(P, dict(rargs, a=t1))
        want = ev(p.model, p.result)
        if not _same_modulo_env(got, want, p.result):
            raise core.EngineError("concolic mismatch on %r: concrete %r vs symbolic %r" % (t1, got, want))
        nval += 1
        if len(res["samples"]) < 3:
            res["samples"].append(dict(input=t1, output=got, cls=describe(t1)))
    res["validated"] += nval
    res["vacuity"] = "witnessed" if len(groups) >= 1 and any(p.model is not None for p in run.paths) else "VACUOUS"
    if res["vacuity"] != "witnessed" and not excs:
        raise core.EngineError("no feasible path")


def _same_modulo_env(got, want, sym):
    """concrete result equals the symbolic one; positions holding environment symbols (random sha512 salt/hash) are free"""
    if isinstance(sym, str):
        return got == sym
    if not isinstance(got, str) or len(got) != len(sym.cs):
        return False
    for g, c, w in zip(got, sym.cs, want):
        if isinstance(c, int):
            if ord(g) != c:
                return False
        elif str(c).startswith("env_"):
            continue
        elif g != w:
            return False
    return True


def line(item, res):
    """H2/H3: replace_matching_item on a generated line form with a symbolic secret slot."""
    F = fam()
    fs, hv, st = _forms()
    n = item.params["n"]
    sfx = SUFFIXES[item.params["suffix"]]
    if "form" in item.params:
        f = fs[item.params["form"]]
        pre, slot, suf = f.parts()
        alphabet = sec.SECRET_ALPHABET & slot.chars
        if slot.hi is not None and slot.lo == slot.hi:
            n = slot.lo if slot.lo <= 4 else n
            fixed_len = slot.lo
        else:
            fixed_len = None
        label = "p%d" % f.pat_index
    elif "corpus" in item.params:
        b = baseline()["forms"][item.params["corpus"]]
        pre, suf = b["pre"], b["suf"]
        alphabet = sec.SECRET_ALPHABET & frozenset(c for lo, hi in b["chars"] for c in range(lo, hi + 1))
        fixed_len = b["lo"] if (b["hi"] is not None and b["lo"] == b["hi"]) else None
        if fixed_len is not None and fixed_len <= 4:
            n = fixed_len
        label = "b%d" % b["pat"]
    else:
        pre, suf, _ = hv[item.params["harvested"]]
        # a template that glues a delimiter to the secret ("{}:100", "\"{}\"") delimits the secret by that character: the secret
        # itself cannot contain it (otherwise only a part of the token is the secret, and that part may be a reserved word)
        alphabet = sec.SECRET_ALPHABET - {ord(c) for c in (pre[-1:] + suf[:1]) if not c.isspace()}
        fixed_len = None
        label = "t%d" % item.params["harvested"]
    vs = sec.secret_vars(n)
    body = list(vs)
    if fixed_len is not None and fixed_len > n:
        body = body + [ord("A")] * (fixed_len - n)    # fixed-width slot (e.g. .{32}): remaining characters concrete
    cs = [ord(c) for c in pre] + body + [ord(c) for c in suf + sfx + "\n"]
    reserved = sec.reserved()
    rx = sec.regexes()

    ctx_words = set((pre + " " + suf + sfx).split()) | {forms.SAMPLE_WORD}

    def assume(ex_):
        sec.in_alphabet(ex_, vs, alphabet)
        sec.not_reserved(ex_, body)
        # the empty-salt md5-crypt corner ("$1$$...") is outside the claim (see `value`): the secret-bearing token does not contain "$1$$"
        glue = [ord(c) for c in pre.split(" ")[-1]] if pre and not pre[-1].isspace() else []
        tokc = glue + list(body)
        for k in range(len(tokc) - 3):
            win = tokc[k:k + 4]
            if any(not isinstance(c, int) for c in win):
                e = SStr(list(win)).eq_expr("$1$$")
                if not z3.is_false(e):
                    ex_.assume(z3.Not(e))
        # same equality pattern: the secret differs from every other token of the line (some of them are secrets too)
        for w in ctx_words:
            if len(w) == len(body):
                e = SStr(list(body)).eq_expr(w)
                if not z3.is_false(e):
                    ex_.assume(z3.Not(e))

    def fn(ex_):
        return F.sir.replace_matching_item(rx, SStr.mk(list(cs)), models.SymDict(), "S", reserved)

    def mk_text(m, other):
        return _text(m, cs, vs, other)
    run = sec.Run(fn, item.budget_s, res, assume)

    def describe(t):
        secret = t[len(pre):len(pre) + len(body)]
        return "%s:%s:%s" % (label, _cell_name(secret), "trailing-word" if (suf + sfx).strip() else "plain")
    _finish(item, res, run, cs, vs, mk_text, label, dict(mode="line", corpus=True) if "corpus" in item.params else dict(mode="line"), describe, full=body)
    res["samples"] = res["samples"][:2] + [dict(form=pre + "<secret>" + suf + sfx, paths=len(run.paths))]


KEYWORDS = ["level 15 5", "encrypted", "text"]


def hashctx(item, res):
    """H4: a standalone $1$ / $9$ token preceded by keywords (reserved words) in the context of a recognised form."""
    F = fam()
    fs, hv, st = _forms()
    f = fs[item.params["form"]]
    pre, slot, suf = f.parts()
    kw = KEYWORDS[item.params["kw"]]
    kind = item.params["kind"]
    nsym = item.params.get("nsym", 2)
    vs = sec.secret_vars(nsym)
    h = nsym // 2
    if kind == "md5":
        body = [ord(c) for c in "$1$"] + vs[:h] + [ord("a")] * (2 - h if h < 2 else 0) + [36] + vs[h:] + [ord("b")]
    else:
        body = [ord(c) for c in "$9$"] + vs + [ord(c) for c in "AB"[: max(0, 4 - nsym)]]
    cs = [ord(c) for c in pre + kw + " "] + body + [10]
    reserved = sec.reserved()
    rx = sec.regexes()

    def assume(ex_):
        sec.in_alphabet(ex_, vs, sec.SECRET_ALPHABET - {36} if kind == "md5" else sec.J9)

    def fn(ex_):
        return F.sir.replace_matching_item(rx, SStr.mk(list(cs)), models.SymDict(), "S", reserved)

    def mk_text(m, other):
        return _text(m, cs, vs, other)
    run = sec.Run(fn, item.budget_s, res, assume)

    def describe(t):
        return "p%d:hash-token-after-keywords:%s" % (f.pat_index, kind)
    _finish(item, res, run, cs, vs, mk_text, "p%d" % f.pat_index, dict(mode="line"), describe, full=body)
    res["samples"] = res["samples"][:2] + [dict(form=pre + kw + " <hash token>", paths=len(run.paths))]


HARNESSES = {"value": value, "line": line, "hashctx": hashctx}
