"""C09 - Secret replacements are format-compliant and keep their context."""
import re
import time
import z3

from .. import core, harness, models, forms
from ..core import Explorer, SStr
from ..harness import Item, fam, plain, ev
from . import secrets as sec
from . import c07

USES_REGEX = True
INFO = dict(
    functions=["_anonymize_value", "_check_sensitive_item_format", "_extract_enclosing_text", "replace_matching_item", "juniper_nonrandom_encrypt",
               "passlib cisco_type7 / md5_crypt (real, on concrete pseudonyms), sha512_crypt (environment stub for the random salt)"],
    files=["netconan/sensitive_item_removal.py", "netconan/utils/juniper_secrets.py"],
    assumptions=["format oracles are independent of netconan's classifier: own Cisco type-7 decoder, own $9$ decoder (from the Crypt::Juniper description), "
                 "crypt-string shape checks for $1$ (same salt length) and $6$, digit / hex-digit checks",
                 "an input that satisfies several format predicates may be replaced in any one of them",
                 "secret characters: printable non-space ASCII without quote/terminator characters; not a reserved word"],
    outside=["secrets longer than the stated bounds", "line forms beyond the generated family", "sha512-crypt hash body (random salt: only the $6$<salt>$<86 chars> shape is checked)"],
)
T7_KEY = "dsfd;kfoA,.iyewrkldJKDHSUBsgvca69834ncxv9873254k;fg87"
H64 = "./0123456789ABCDEFGHIJKLMNOPQRSTUVWXYZabcdefghijklmnopqrstuvwxyz"


def type7_decode(s):
    """independent Cisco type-7 decoder: two decimal digits of salt, then hex pairs XORed with the well-known key"""
    if not re.fullmatch(r"[0-9]{2}([0-9A-Fa-f]{2})+", s):
        raise ValueError("not type 7")
    seed = int(s[:2])
    if seed > 15:
        raise ValueError("bad seed")
    out = []
    for i in range(2, len(s), 2):
        out.append(chr(int(s[i:i + 2], 16) ^ ord(T7_KEY[(seed + (i - 2) // 2) % len(T7_KEY)])))
    return "".join(out)


def formats_of_output(r, salt_char="S"):
    """set of formats a concrete replacement satisfies (independent checks)"""
    from ..replayers import jun_reference_decrypt
    out = set()
    if re.fullmatch(r"[0-9]+", r):
        out.add("numeric")
    if re.fullmatch(r"[0-9a-fA-F]+", r):
        out.add("hex")
    try:
        if type7_decode(r).startswith("netconanRemoved"):
            out.add("type7")
    except ValueError:
        pass
    m = re.fullmatch(r"\$1\$([^$]*)\$([%s]{22})" % re.escape(H64), r)
    if m:
        out.add("md5_salt%d" % len(m.group(1)))
    if re.fullmatch(r"\$6\$[%s]{1,16}\$[%s]{86}" % (re.escape(H64), re.escape(H64)), r):
        out.add("sha512")
    try:
        if jun_reference_decrypt(r).startswith("netconanRemoved"):
            out.add("j9")
    except (ValueError, KeyError):
        pass
    return out


ENCLOSINGS = [("", ""), ('"', '"'), ("'", "'"), ("{", "}"), ("[", "];"), ('\\"', '\\"'), ("", ";"), ("", ",")]


def bounds(tier):
    return dict(value_level="secrets of length 1..%d, shaped type-7 (salt digits symbolic), $1$ (salt lengths 1..8), $6$, $9$ (payload 4..6) inputs; enclosing text %r" % (
                    4 if tier == "quick" else 6, ENCLOSINGS), line_level="context preservation on generated line forms (see C07 bounds)")


def items(tier, seed):
    out = []
    nmax = 4 if tier == "quick" else 6
    shapes = [dict(shape="free", n=n) for n in range(1, nmax + 1)]
    shapes += [dict(shape="md5", salt=sl, k=2) for sl in range(1, 9)]
    shapes += [dict(shape="sha512", k=3), dict(shape="j9", k=4), dict(shape="j9", k=5), dict(shape="j9", k=6), dict(shape="type7", pairs=1), dict(shape="type7", pairs=2)]
    for sh in shapes:
        encs = range(len(ENCLOSINGS)) if (tier == "thorough" or sh["shape"] == "free" and sh["n"] <= 2) else [0, 1]
        for e in encs:
            out.append(Item("C09", "value_format", dict(sh, enc=e), budget_s=300 if tier == "quick" else 2400, obligation="H1-format-and-enclosing"))
        # the same secret seen a second time in the run (shared lookup, first occurrence bare): same obligations on the repeat
        for e in (range(1, len(ENCLOSINGS)) if (tier == "thorough" or sh["shape"] == "free" and sh["n"] <= 2) else [1]):
            out.append(Item("C09", "value_format", dict(sh, enc=e, repeat=1), budget_s=300 if tier == "quick" else 2400, obligation="H1-format-and-enclosing-on-repeat"))
    for kind in ("numeric", "hex"):
        for order in ("j9-first", "clear-first"):
            for n in ((1,) if tier == "quick" else (1, 2)):
                out.append(Item("C09", "format_after_j9", dict(kind=kind, order=order, n=n), budget_s=600 if tier == "quick" else 2400, obligation="H3-format-with-shared-lookup"))
    import random
    fs, hv, st = c07._forms()
    rnd = random.Random(seed)
    base = {}
    def eligible(f):
        # the obligation applies to forms whose secret is a whole space-delimited token captured by a group index
        # (patterns without a group index scrub the whole line by design; catch-all patterns glue literal text to the slot)
        pre, slot, suf = f.parts()
        if not (f.group_index is not None and pre.endswith(" ") and not (slot.hi is not None and slot.lo == slot.hi)):
            return False
        # single-secret lines only: with a sample secret the un-instrumented code changes nothing but the secret token
        from .. import replayers
        o = replayers.secret_run(plain(), dict(mode="line", a=pre + "Zq8kW3xv" + suf + "\n"))
        return o.startswith(pre) and o.endswith(suf + "\n")
    for idx, f in enumerate(fs):
        if eligible(f):
            base.setdefault(f.pat_index, idx)
    cand = sorted(base.values())
    if tier == "quick":
        sel = [(i, 0, 0) for i in cand if fs[i].pat_index < 36] + [(i, rnd.randrange(1, len(LINE_ENC)), rnd.randrange(len(INDENTS))) for i in rnd.sample(cand, 10)]
    else:
        sel = [(i, e, d) for i in range(len(fs)) if eligible(fs[i]) for e in range(len(LINE_ENC)) for d in (0, 2)]
    for i, e, d in sel:
        out.append(Item("C09", "line_context", dict(form=i, enc=e, indent=d, n=2), budget_s=400 if tier == "quick" else 2400, obligation="H2-line-context"))
    return out


def _shape(params):
    if params["shape"] == "type7":
        v = sec.secret_vars(2 + 2 * params["pairs"])
        return list(v), v
    return c07._shape_cs(params)


def value_format(item, res):
    F = fam()
    cs, vs = _shape(item.params)
    head, tail = ENCLOSINGS[item.params["enc"]]
    raw = [ord(c) for c in head] + list(cs) + [ord(c) for c in tail]
    reserved = sec.reserved()

    def assume(ex_):
        sec.in_alphabet(ex_, vs)
        if item.params["shape"] == "md5":
            for c in vs[:item.params["salt"]]:
                ex_.assume(c != 36)
        if item.params["shape"] == "type7":
            ex_.assume(core.in_set_expr(vs[0], {48, 49}))
            ex_.assume(core.in_set_expr(vs[1], sec.DIG))
            for c in vs[2:]:
                ex_.assume(core.in_set_expr(c, sec.HEX))
        sec.not_reserved(ex_, cs)

    repeat = bool(item.params.get("repeat"))

    def fn(ex_):
        lookup = models.SymDict()
        if repeat:
            F.sir._anonymize_value(SStr.mk(list(cs)), lookup, reserved, "S")
        return F.sir._anonymize_value(SStr.mk(list(raw)), lookup, reserved, "S")
    run = sec.Run(fn, item.budget_s, res, assume)
    preds = sec.cell_predicates(list(cs))
    P = plain()
    from .. import replayers
    nval = 0
    for p in run.paths:
        if p.model is None:
            continue
        text = "".join(chr(c) if isinstance(c, int) else chr(ev(p.model, c)) for c in raw)
        if p.exc is not None:
            res["violations"].append(dict(description="_anonymize_value raises %s" % type(p.exc).__name__, witness=dict(input=text), tags=["raises:%s" % type(p.exc).__name__],
                                          replay=dict(replayer="secret_format", args=dict(a=text, head=head, tail=tail, repeat=repeat))))
            res["status"] = "violated"
            continue
        r = p.result
        rtext = ev(p.model, r) if not isinstance(r, str) else r
        # enclosing text restored around the replacement
        if not (rtext.startswith(head) and rtext.endswith(tail) and len(rtext) > len(head) + len(tail)):
            res["violations"].append(dict(description="enclosing text not kept around the replacement", witness=dict(input=text, output=rtext), tags=["enclosing"],
                                          replay=dict(replayer="secret_format", args=dict(a=text, head=head, tail=tail, repeat=repeat))))
            res["status"] = "violated"
            continue
        core_r = rtext[len(head):len(rtext) - len(tail)]
        fmts = formats_of_output(core_r)
        # every input on this path must have one of the formats of the (path-constant) replacement, unless it is plain text
        non_text = z3.Or(*preds.values())
        covered = z3.Or(*[preds[f] for f in fmts if f in preds]) if any(f in preds for f in fmts) else z3.BoolVal(False)
        res["finals"] += 1
        s = z3.Solver()
        s.set("timeout", 30000)
        s.add(*p.pc)
        s.add(non_text, z3.Not(covered))
        rr = s.check()
        res["queries"] += 1
        if rr == z3.unsat:
            res["finals_unsat"] += 1
        elif rr == z3.sat:
            m = s.model()
            bad_text = "".join(chr(c) if isinstance(c, int) else chr(m.eval(c, model_completion=True).as_long()) for c in raw)
            res["violations"].append(dict(description="replacement %r is not in the format of the secret" % core_r, witness=dict(input=bad_text, output=rtext, output_formats=sorted(fmts)),
                                          tags=["format:%s" % c07._cell_name(bad_text[len(head):len(bad_text) - len(tail)])],
                                          replay=dict(replayer="secret_format", args=dict(a=bad_text, head=head, tail=tail, repeat=repeat))))
            res["status"] = "violated"
        else:
            raise core.Inconclusive("format query unknown")
        if nval < 25:
            got = replayers.secret_run(P, dict(mode="value", a=text, prior=[text[len(head):len(text) - len(tail)]] if repeat else []))
            if not c07._same_modulo_env(got, rtext, r):
                raise core.EngineError("concolic mismatch on %r: %r vs %r" % (text, got, rtext))
            nval += 1
            if len(res["samples"]) < 3:
                res["samples"].append(dict(input=text, output=rtext, formats=sorted(fmts)))
    res["validated"] += nval
    harness_paths = [p for p in run.paths if p.model is not None]
    res["vacuity"] = "witnessed" if harness_paths else "VACUOUS"
    if not harness_paths:
        raise core.EngineError("no feasible path")


LINE_ENC = [("", ""), ('"', '"'), ("'", "'"), ("{", "}"), ("[", "];")]
INDENTS = ["", " ", "\t  "]


def line_context(item, res):
    """H2: on a recognised line form the text before and after the secret, indentation and enclosing characters stay in place."""
    F = fam()
    fs, hv, st = c07._forms()
    f = fs[item.params["form"]]
    pre, slot, suf = f.parts()
    head, tail = LINE_ENC[item.params["enc"]]
    indent = INDENTS[item.params["indent"]]
    n = item.params["n"]
    if slot.hi is not None and slot.lo == slot.hi:
        raise core.EngineError("fixed-width slot: not selected for this obligation")
    vs = sec.secret_vars(n)
    alphabet = sec.SECRET_ALPHABET & slot.chars
    line = indent + pre + head
    cs = [ord(c) for c in line] + list(vs) + [ord(c) for c in tail + suf + "\n"]
    reserved = sec.reserved()
    rx = sec.regexes()
    ctx_words = set((pre + " " + suf).split()) | {forms.SAMPLE_WORD}

    def assume(ex_):
        sec.in_alphabet(ex_, vs, alphabet)
        sec.not_reserved(ex_, vs)
        for w in ctx_words:
            if len(w) == n:
                e = SStr(list(vs)).eq_expr(w)
                if not z3.is_false(e):
                    ex_.assume(z3.Not(e))

    def fn(ex_):
        return F.sir.replace_matching_item(rx, SStr.mk(list(cs)), models.SymDict(), "S", reserved)
    run = sec.Run(fn, item.budget_s, res, assume)
    P = plain()
    from .. import replayers
    nval = 0
    for p in run.paths:
        if p.model is None:
            continue
        text = "".join(chr(c) if isinstance(c, int) else chr(ev(p.model, c)) for c in cs)
        if p.exc is not None:
            continue   # totality is C14's subject
        r = p.result
        rtext = ev(p.model, r) if not isinstance(r, str) else r
        res["finals"] += 1
        want_pre, want_suf = line, tail + suf + "\n"
        secret_text = text[len(line):len(line) + n]
        ok = rtext.startswith(want_pre) and rtext.endswith(want_suf) and len(rtext) > len(want_pre) + len(want_suf) and \
            not any(ch.isspace() for ch in rtext[len(want_pre):len(rtext) - len(want_suf)])
        if ok:
            res["finals_unsat"] += 1
        elif c07._recognised(text):
            cell = c07._cell_name(secret_text)
            tag = "context:p%d:%s:%s" % (f.pat_index, cell, "trailing-word" if suf.strip() else "plain")
            if not any(tag in v["tags"] for v in res["violations"]):
                res["violations"].append(dict(description="text around the secret is not kept in place (%s)" % tag, witness=dict(input=text, output=rtext), tags=[tag],
                                              replay=dict(replayer="secret_context", args=dict(a=text, pre=want_pre, suf=want_suf))))
                res["status"] = "violated"
        if nval < 15:
            got = replayers.secret_run(P, dict(mode="line", a=text))
            if not c07._same_modulo_env(got, rtext, r):
                raise core.EngineError("concolic mismatch on %r: %r vs %r" % (text, got, rtext))
            nval += 1
            if len(res["samples"]) < 2:
                res["samples"].append(dict(input=text, output=rtext))
    res["validated"] += nval
    res["vacuity"] = "witnessed" if any(p.model is not None for p in run.paths) else "VACUOUS"


def format_after_j9(item, res):
    """H3: a clear-text secret seen after a $9$ value with the same plaintext (shared lookup) must still get a replacement of
    its own format (all-digit stays all-digit, hex stays hex)."""
    F = fam()
    n, kind = item.params["n"], item.params["kind"]
    vs = sec.secret_vars(n)
    reserved = sec.reserved()
    ex = Explorer(deadline=time.time() + item.budget_s)

    def h(ex_):
        sec.in_alphabet(ex_, vs, sec.DIG if kind == "numeric" else sec.HEX)
        p = SStr.mk(list(vs))
        X = F.jun.juniper_nonrandom_encrypt(p, "a")
        lookup = models.SymDict()
        first, second = (X, p) if item.params["order"] == "j9-first" else (p, X)
        r1 = F.sir._anonymize_value(first, lookup, reserved, "S")
        r2 = F.sir._anonymize_value(second, lookup, reserved, "S")
        return (r1, r2)
    paths = ex.explore(h)
    harness.add_stats(res, ex)
    from .. import replayers
    P = plain()
    seen = set()
    for p in paths:
        if p.model is None or p.exc is not None:
            continue
        text = "".join(chr(ev(p.model, c)) for c in vs)
        r1, r2 = [ev(p.model, r) if not isinstance(r, str) else r for r in p.result]
        clear_out = r2 if item.params["order"] == "j9-first" else r1
        fmts = formats_of_output(clear_out)
        res["finals"] += 1
        want = "numeric" if text.isdigit() else "hex"
        if want in fmts or (want == "hex" and "numeric" in fmts):
            res["finals_unsat"] += 1
            res["validated"] += 1
            continue
        tag = "format-after-j9:%s:%s" % (want, item.params["order"])
        if tag in seen:
            continue
        seen.add(tag)
        args = dict(plaintext=text, order=item.params["order"])
        rr = replayers.secret_format_history(P, args)
        res["violations"].append(dict(description="clear-text %s secret seen %s a $9$ value with the same plaintext is replaced by %r" % (want, "after" if item.params["order"] == "j9-first" else "before", clear_out),
                                      witness=dict(plaintext=text, outputs=rr["observed"]), tags=[tag, "format-after-j9"], replay=dict(replayer="secret_format_history", args=args)))
        res["status"] = "violated"
    res["samples"].append(dict(kind=kind, n=n, order=item.params["order"], paths=len(paths)))
    res["vacuity"] = "witnessed" if any(p.model is not None for p in paths) else "VACUOUS"


HARNESSES = {"value_format": value_format, "line_context": line_context, "format_after_j9": format_after_j9}
