"""C10 - Listed sensitive words never survive; reserved words always do."""
import time
import z3

from .. import core, harness, models
from ..core import Explorer, SStr
from ..harness import Item, fam, plain, ev
from . import secrets as sec

USES_REGEX = True
INFO = dict(
    functions=["SensitiveWordAnonymizer.__init__", "_generate_sensitive_word_regex", "_generate_conflicting_reserved_word_list", "SensitiveWordAnonymizer.anonymize",
               "_lookup_anon_word / _get_or_generate_sensitive_word_replacement", "_split_line", "_anonymize_value (reserved-word branch)", "FileAnonymizer.__init__ (reserved word merge)"],
    files=["netconan/sensitive_item_removal.py", "netconan/default_reserved_words.py", "netconan/anonymize_files.py"],
    assumptions=["md5 is an uninterpreted function: the pseudonym is six arbitrary hex digits that are a function of (salt, matched text)",
                 "words satisfy the property's precondition (first and last letter outside a-f, no run of six hex digits)",
                 "every iteration order of the word set is explored (sets of up to 4 elements)",
                 "a token that equals a reserved word only up to letter case may be kept or anonymized (the statement is silent)"],
    outside=["word lists beyond the listed families", "lines longer than the stated bound", "characters above U+00FF"],
)
# every word starts and ends with a letter outside a-f and contains no run of six hex digits (the property's precondition)
FAMILIES = [["lon"], ["lon", "lax"], ["sis", "sister", "ister"], ["sys"], ["Lon", "LAX"], ["ring", "string"]]


def bounds(tier):
    n = 4 if tier == "quick" else 6
    return dict(lines="all lines of up to %d arbitrary Latin-1 characters (no line terminators), plus word + 0..2 arbitrary characters on each side" % n, word_lists=FAMILIES,
                reserved="tokens / secrets equal to a built-in or user reserved word (symbolic choice among the words that contain a listed word)")


def items(tier, seed):
    out = []
    nmax = 4 if tier == "quick" else 6
    for fi in range(len(FAMILIES)):
        for n in range(0, nmax + 1):
            if tier == "quick" and n == nmax and len(FAMILIES[fi]) > 2:
                continue
            out.append(Item("C10", "no_survivor", dict(fam=fi, n=n), budget_s=600 if tier == "quick" else 3000, obligation="H1-no-listed-word-survives"))
        for w in range(len(FAMILIES[fi])):
            for nl in range(0, 3):
                for nr in range(0, 3):
                    out.append(Item("C10", "no_survivor", dict(fam=fi, word=w, nl=nl, nr=nr), budget_s=600, obligation="H1-no-listed-word-survives"))
    for fi in (0, 3, 5):
        out.append(Item("C10", "reserved_kept", dict(fam=fi, user=False), budget_s=600, obligation="H2-reserved-words-kept"))
    out.append(Item("C10", "reserved_kept", dict(fam=0, user=True), budget_s=600, obligation="H2-reserved-words-kept"))
    out.append(Item("C10", "reserved_secret", dict(n=3), budget_s=600, obligation="H2-reserved-secret-kept"))
    return out


NOLT = frozenset(range(256)) - {10, 13}


def _occurrence(out_cs, i, w):
    """z3 Bool: word w occurs case-insensitively at position i of the output characters"""
    conj = []
    for j, ch in enumerate(w):
        c = out_cs[i + j]
        alts = {ord(ch.lower()), ord(ch.upper())}
        if isinstance(c, core.Atom):
            return z3.BoolVal(False)
        if isinstance(c, int):
            if c not in alts:
                return z3.BoolVal(False)
        else:
            conj.append(core.in_set_expr(c, alts))
    return z3.And(*conj) if conj else z3.BoolVal(True)


def _token_bounds(ex_, out_cs):
    """whitespace classification of every output character (forking), returns list of (start, end) tokens"""
    toks, start = [], None
    for i, c in enumerate(out_cs):
        ws = core.char_in(c, core.WS)
        if ws:
            if start is not None:
                toks.append((start, i))
                start = None
        elif start is None:
            start = i
    if start is not None:
        toks.append((start, len(out_cs)))
    return toks


def no_survivor(item, res):
    F = fam()
    words = FAMILIES[item.params["fam"]]
    ex = Explorer(deadline=time.time() + item.budget_s)
    if "word" in item.params:
        w0 = words[item.params["word"]]
        L = [z3.BitVec("l%d" % i, 8) for i in range(item.params["nl"])]
        R = [z3.BitVec("r%d" % i, 8) for i in range(item.params["nr"])]
        line_cs = L + [ord(c) for c in w0] + R
        vs = L + R
    else:
        vs = [z3.BitVec("c%d" % i, 8) for i in range(item.params["n"])]
        line_cs = list(vs)
    P = plain()
    reserved_l = {w.lower() for w in P.words.default_reserved_words}
    lw = [w.lower() for w in words]

    def h(ex_):
        for c in vs:
            ex_.assume(core.in_set_expr(c, NOLT))
        an = F.sir.SensitiveWordAnonymizer(list(words), "S")
        out = an.anonymize(SStr.mk(line_cs + [10]))
        out_cs = list(SStr.of(out).cs)
        toks = _token_bounds(ex_, out_cs)
        bad = []
        for w in lw:
            for i in range(len(out_cs) - len(w) + 1):
                occ = _occurrence(out_cs, i, w)
                if z3.is_false(occ):
                    continue
                # exception: inside a whitespace-delimited token that is (case-insensitively) a reserved word
                tok = [t for t in toks if t[0] <= i and i + len(w) <= t[1]]
                exc = z3.BoolVal(False)
                if tok:
                    a, b = tok[0]
                    cands = [r for r in reserved_l if len(r) == b - a and w in r and all(ord(ch) < 256 for ch in r)]
                    if cands:
                        exc = z3.Or(*[z3.And(*[_occurrence(out_cs, a + k, ch) for k, ch in enumerate(r)]) for r in cands])
                bad.append(z3.And(occ, z3.Not(exc)))
        res["finals"] += 1
        if not bad:
            res["finals_unsat"] += 1
            return ("ok", out)
        m = ex_.model(z3.Or(*bad))
        if m is None:
            res["finals_unsat"] += 1
            return ("ok", out)
        return ("survives", out, m)
    paths = ex.explore(h)
    harness.add_stats(res, ex)
    from .. import replayers
    nval, seen = 0, set()
    for p in paths:
        if p.model is None:
            continue
        if p.exc is not None:
            continue
        m = p.result[2] if p.result[0] == "survives" else p.model
        text = "".join(chr(c) if isinstance(c, int) else chr(ev(m, c)) for c in line_cs) + "\n"
        if p.result[0] == "survives":
            tag = "word-survives:%s" % "+".join(words)
            if tag in seen:
                continue
            seen.add(tag)
            rr = _plain_words(m, words, text)
            res["violations"].append(dict(description="a listed sensitive word survives in the output", witness=dict(words=words, line=text, output=rr["observed"]), tags=[tag],
                                          replay=dict(replayer="words_line", args=dict(words=words, line=text, md5_table=rr["table"]))))
            res["status"] = "violated"
        elif nval < 15:
            rr = _plain_words(m, words, text)
            want = ev(m, p.result[1]) if not isinstance(p.result[1], str) else p.result[1]
            if rr["observed"] != want:
                raise core.EngineError("concolic mismatch on %r: %r vs %r" % (text, rr["observed"], want))
            nval += 1
            if len(res["samples"]) < 2 and rr["observed"] != text:
                res["samples"].append(dict(words=words, line=text, output=rr["observed"]))
    res["validated"] += nval
    res["vacuity"] = "witnessed" if any(p.model is not None for p in paths) else "VACUOUS"
    if res["vacuity"] != "witnessed":
        raise core.EngineError("no feasible path")


def _plain_words(model, words, text):
    from .. import replayers
    P = plain()
    table = {}
    dbl = models.model_md5(model, table)
    with replayers.patched_md5(P, dbl):
        r = replayers.words_line(P, dict(words=words, line=text))
    r["table"] = table
    return r


def reserved_kept(item, res):
    """H2: a whitespace-delimited token that is exactly a reserved word containing a listed word is left as is."""
    F = fam()
    P = plain()
    words = FAMILIES[item.params["fam"]]
    user = item.params["user"]
    user_reserved = ["london-gw", "xlonx"] if user else []
    pool = sorted(w for w in (set(P.words.default_reserved_words) | set(user_reserved)) if any(x.lower() in w.lower() for x in words) and w == w.lower() and all(ord(c) < 128 for c in w))[:24]
    if not pool:
        raise core.EngineError("no reserved word contains a listed word")
    ex = Explorer(deadline=time.time() + item.budget_s)

    def h(ex_):
        k = ex_.choice(len(pool), "reserved-word")
        tok = pool[k]
        ws1, ws2 = z3.BitVec("ws1", 8), z3.BitVec("ws2", 8)
        ex_.assume(core.in_set_expr(ws1, core.WS - {10, 13}))
        ex_.assume(core.in_set_expr(ws2, core.WS - {10, 13}))
        line = SStr.mk([ord(c) for c in "x"] + [ws1] + [ord(c) for c in tok] + [ws2] + [ord(c) for c in "y\n"])
        if user:
            fa = F.files.FileAnonymizer(anon_pwd=False, anon_ip=False, salt="S", sensitive_words=list(words), reserved_words=list(user_reserved))
            an = fa.anonymizer_sensitive_word
        else:
            an = F.sir.SensitiveWordAnonymizer(list(words), "S")
        out = SStr.of(an.anonymize(line))
        toks = [t for t in _tok_texts(out)]
        res["finals"] += 1
        if tok in toks:
            res["finals_unsat"] += 1
            return ("ok", tok)
        return ("reserved-word-changed", tok, toks)
    paths = ex.explore(h)
    harness.add_stats(res, ex)
    seen = set()
    for p in paths:
        if p.model is None or p.exc is not None:
            continue
        if p.result[0] != "ok":
            tag = "reserved-word-changed:%s" % p.result[1]
            if tag in seen:
                continue
            seen.add(tag)
            res["violations"].append(dict(description="a token that is exactly a reserved word was changed by word anonymization", witness=dict(words=words, token=p.result[1]),
                                          tags=[tag, "reserved-word-changed"], replay=dict(replayer="words_reserved", args=dict(words=words, token=p.result[1], user_reserved=user_reserved))))
            res["status"] = "violated"
        else:
            res["validated"] += 1
    res["samples"].append(dict(words=words, reserved_tokens=pool[:6], paths=len(paths)))
    res["vacuity"] = "witnessed" if paths else "VACUOUS"


def _tok_texts(out):
    toks, cur = [], []
    for c in out.cs:
        if isinstance(c, int) and chr(c).isspace():
            if cur:
                toks.append(cur)
                cur = []
        elif not isinstance(c, int) and str(c).startswith("ws"):
            if cur:
                toks.append(cur)
                cur = []
        else:
            cur.append(c)
    if cur:
        toks.append(cur)
    return ["".join(chr(c) for c in t) if all(isinstance(c, int) for c in t) else None for t in toks]


def reserved_secret(item, res):
    """H2: a secret value that is a reserved word (built-in or user addition) is left as is by secret anonymization."""
    F = fam()
    P = plain()
    n = item.params["n"]
    ex = Explorer(deadline=time.time() + item.budget_s)
    vs = [z3.BitVec("s%d" % i, 8) for i in range(n)]
    words_n = [w for w in P.words.default_reserved_words if len(w) == n and all(33 <= ord(c) < 127 for c in w)]
    user_word = "Zq7"

    def h(ex_):
        s = SStr(list(vs))
        ex_.assume(z3.Or(*[s.eq_expr(w) for w in words_n + [user_word]]))
        fa = F.files.FileAnonymizer(anon_pwd=True, anon_ip=False, salt="S", reserved_words=[user_word])
        out = []

        class O:
            def write(self_, x):
                out.append(x)

        class I:
            def readlines(self_):
                return [SStr.mk([ord(c) for c in "username admin password 0 "] + vs + [10])]
        fa.anonymize_io(I(), O())
        res["finals"] += 1
        o = SStr.of(out[0])
        want = SStr([ord(c) for c in "username admin password 0 "] + vs + [10])
        if len(o.cs) == len(want.cs):
            m = ex_.model(z3.Not(o.eq_expr(want)))
            if m is None:
                res["finals_unsat"] += 1
                return ("ok",)
            return ("reserved-secret-changed", m)
        return ("reserved-secret-changed", ex_.model())
    paths = ex.explore(h)
    harness.add_stats(res, ex)
    for p in paths:
        if p.model is None or p.exc is not None:
            continue
        if p.result[0] != "ok":
            w = "".join(chr(ev(p.result[1], c)) for c in vs)
            res["violations"].append(dict(description="a secret value that is a reserved word was anonymized", witness=dict(word=w), tags=["reserved-secret-changed"],
                                          replay=dict(replayer="words_reserved_secret", args=dict(word=w, user_word=user_word))))
            res["status"] = "violated"
            break
        res["validated"] += 1
    res["samples"].append(dict(reserved_words_of_length=n, count=len(words_n), paths=len(paths)))
    res["vacuity"] = "witnessed" if paths else "VACUOUS"


HARNESSES = {"no_survivor": no_survivor, "reserved_kept": reserved_kept, "reserved_secret": reserved_secret}
