"""C08 - Secret pseudonyms are consistent and collision-free within a run."""
import itertools
import random
import time
import z3

from .. import core, harness, models, forms
from ..core import Explorer, SStr
from ..harness import Item, fam, plain, ev
from . import secrets as sec
from . import c07

USES_REGEX = True
INFO = dict(
    functions=["_anonymize_value (shared lookup)", "_extract_enclosing_text", "replace_matching_item (two lines sharing pwd_lookup; two secrets on one line)",
               "juniper_decrypt / juniper_nonrandom_encrypt ($9$ values keyed by plaintext)"],
    files=["netconan/sensitive_item_removal.py", "netconan/utils/juniper_secrets.py", "netconan/anonymize_files.py"],
    assumptions=["equality patterns among the secrets are enumerated (set partitions); secrets of different blocks are assumed different, everything else about them is symbolic",
                 "secret characters: printable non-space ASCII without quote/terminator characters; not reserved words",
                 "two replacements containing different random sha512 salts (environment symbols) count as different"],
    outside=["histories longer than the stated number of values / lines", "lookups across runs (there are none)"],
)
ENC = [("", ""), ('"', '"'), ("'", ";"), ("{", "}")]
PARTITIONS3 = [(0, 0, 0), (0, 0, 1), (0, 1, 0), (0, 1, 1), (0, 1, 2)]
PARTITIONS4 = [p for p in itertools.product(range(4), repeat=4) if all(p[i] <= max((-1,) + p[:i]) + 1 for i in range(4))]


def bounds(tier):
    return dict(value_histories="k=%d values, every equality pattern, secrets of %s symbolic characters, enclosing text combinations from %r" % (
                    3 if tier == "quick" else 4, "2 (1 when all three differ)" if tier == "quick" else "2 and 3", ENC),
                earlier_secrets="the 2- and 3-value histories also after N earlier distinct secrets in the same lookup, N in %s" % ("{9, 10, 99}" if tier == "quick" else "{1, 9, 10, 11, 99, 100, 109, 999, 1000}"),
                line_histories="pairs of generated line forms sharing one lookup (equal / different secrets), and every base form repeated on one line with two different secrets",
                juniper="$9$ encodings of one or two symbolic plaintexts (length 1..%d) under symbolic salt characters vs the clear text, all orders" % (1 if tier == "quick" else 3))


def items(tier, seed):
    rnd = random.Random(seed)
    out = []
    parts = PARTITIONS3 if tier == "quick" else PARTITIONS4
    for pi, part in enumerate(parts):
        encs = [tuple(0 for _ in part), tuple(rnd.randrange(len(ENC)) for _ in part), tuple((i + 1) % len(ENC) for i in range(len(part)))]
        if tier == "thorough":
            encs += [tuple(rnd.randrange(len(ENC)) for _ in part) for _ in range(3)]
        for e in encs:
            for n in ((2,) if tier == "quick" else (2, 3)):
                if max(part) >= 2 and (tier == "quick" or n == 3 or max(part) >= 3):
                    n = 1     # three or more mutually different secrets: one symbolic character each
                elif tier == "thorough" and n == 3 and max(part) >= 1:
                    n = 2
                out.append(Item("C08", "value_history", dict(part=list(part), enc=list(e), n=n), budget_s=400 if tier == "quick" else 2400, obligation="H1-value-histories"))
    # the same after an earlier part of the run in which N other secrets were seen (pseudonym numbering / rendering at larger counters)
    for prior in ((9, 10, 99) if tier == "quick" else (1, 9, 10, 11, 99, 100, 109, 999, 1000)):
        for part in ([0, 1], [0, 1, 0]):
            out.append(Item("C08", "value_history", dict(part=list(part), enc=[0] * len(part), n=2 if len(part) == 2 else 1, prior=prior), budget_s=400 if tier == "quick" else 2400,
                            obligation="H1b-value-histories-after-N-earlier-secrets"))
    # shaped secrets: hash-like values with symbolic bodies ($9$ values that do not decode included)
    for prefix, ns in (("$9$", (2, 4) if tier == "quick" else (2, 4, 5)), ("$1$a$", (2,)), ("$6$", (2,))):
        for part in ([0, 1], [0, 0], [0, 1, 0]):
            for n in ns:
                if tier == "quick" and n >= 4 and len(part) > 2:
                    continue
                out.append(Item("C08", "value_history", dict(part=list(part), enc=[0] * len(part), n=n, prefix=prefix), budget_s=400 if tier == "quick" else 2400, obligation="H1-value-histories-shaped"))
    fs, hv, st = c07._forms()
    base = {}
    for idx, f in enumerate(fs):
        pre, slot, suf = f.parts()
        if f.group_index is not None and not (slot.hi is not None and slot.lo == slot.hi):
            base.setdefault(f.pat_index, idx)
    cand = sorted(base.values())
    cheap = [i for i in cand if fs[i].pat_index < (30 if tier == "quick" else 36)]
    npairs = 10 if tier == "quick" else 60
    for _ in range(npairs):
        a, b = rnd.choice(cheap), rnd.choice(cheap)
        for same in (True, False):
            out.append(Item("C08", "line_pair", dict(a=a, b=b, same=same, n=2 if (same or tier == "thorough") else 1), budget_s=600 if tier == "quick" else 2400, obligation="H2-line-histories"))
    twice = cheap if tier == "thorough" else rnd.sample(cheap, 6) + [i for i in cheap if fs[i].pat_index == 3][:1]
    for i in twice:
        out.append(Item("C08", "two_on_line", dict(form=i, n=1 if tier == "quick" else 2), budget_s=600 if tier == "quick" else 2400, obligation="H2-two-secrets-on-one-line"))
    for order in range(6):
        for n in ((1,) if tier == "quick" else (1, 2, 3)):
            out.append(Item("C08", "juniper_equiv", dict(order=order, n=n, same=True), budget_s=600 if tier == "quick" else 2400, obligation="H3-juniper-equivalence"))
    for n in ((1,) if tier == "quick" else (1, 2)):
        out.append(Item("C08", "juniper_equiv", dict(order=0, n=n, same=False), budget_s=600 if tier == "quick" else 2400, obligation="H3-juniper-equivalence"))
    return out


def _same(ex_, a, b):
    """python bool: two replacement cores are the same text (environment symbols: syntactic identity)"""
    if isinstance(a, str) and isinstance(b, str):
        return a == b
    e = z3.simplify(SStr.of(a).eq_expr(SStr.of(b)))
    if z3.is_true(e):
        return True
    if z3.is_false(e):
        return False
    return not ex_.is_sat(z3.Not(e))


def _blocks(ex_, part, n, tag="s", prefix=""):
    nb = max(part) + 1
    blocks = [[z3.BitVec("%s%d_%d" % (tag, b, i), 8) for i in range(n)] for b in range(nb)]
    for b in blocks:
        sec.in_alphabet(ex_, b)
        if not prefix:
            sec.not_reserved(ex_, b)
    if prefix:
        blocks = [[ord(c) for c in prefix] + b for b in blocks]
    for i in range(nb):
        for j in range(i + 1, nb):
            ex_.assume(z3.Not(SStr(list(blocks[i])).eq_expr(SStr(list(blocks[j])))))
    return blocks


def _witness(m, blocks):
    return ["".join(chr(c) if isinstance(c, int) else chr(ev(m, c)) for c in b) for b in blocks]


def value_history(item, res):
    F = fam()
    part, encs, n = item.params["part"], item.params["enc"], item.params["n"]
    reserved = sec.reserved()
    ex = Explorer(deadline=time.time() + item.budget_s)
    bad_paths = []

    def h(ex_):
        blocks = _blocks(ex_, part, n, prefix=item.params.get("prefix", ""))
        if item.params.get("prefix") == "$9$":
            # two $9$ strings that decrypt to the same plaintext are the SAME secret: blocks of different index must differ
            # in plaintext too (decryption by the real juniper_decrypt, whose correctness is C18's subject)
            plains = []
            for b in blocks:
                try:
                    plains.append(SStr.of(F.jun.juniper_decrypt(SStr.mk(list(b)))))
                except ValueError:
                    plains.append(None)
            for i in range(len(blocks)):
                for j in range(i + 1, len(blocks)):
                    if plains[i] is not None and plains[j] is not None and len(plains[i].cs) == len(plains[j].cs):
                        ex_.assume(z3.Not(plains[i].eq_expr(plains[j])) if plains[i].cs else False)
        lookup = models.SymDict()
        for k in range(item.params.get("prior", 0)):
            F.sir._anonymize_value(PRIOR_FMT % k, lookup, reserved, "S")
        cores = []
        raws = []
        for i, b in enumerate(part):
            head, tail = ENC[encs[i]]
            raw = [ord(c) for c in head] + list(blocks[b]) + [ord(c) for c in tail]
            raws.append(raw)
            r = F.sir._anonymize_value(SStr.mk(raw), lookup, reserved, "S")
            rs = SStr.of(r)
            hl, tl = len(head), len(tail)
            if not (SStr(rs.cs[:hl]).concrete() and SStr(rs.cs[:hl]).plain() == head and (tl == 0 or (SStr(rs.cs[-tl:]).concrete() and SStr(rs.cs[-tl:]).plain() == tail))):
                return ("enclosing-lost", blocks, raws, None)
            cores.append(SStr.mk(rs.cs[hl:len(rs.cs) - tl]))
        res["finals"] += 1
        for i in range(len(part)):
            for j in range(i + 1, len(part)):
                same = _same(ex_, cores[i], cores[j])
                if (part[i] == part[j]) != same:
                    return ("inconsistent" if part[i] == part[j] else "collision", blocks, raws, (i, j))
        res["finals_unsat"] += 1
        return ("ok", blocks, raws, cores)
    paths = ex.explore(h)
    harness.add_stats(res, ex)
    res["_prior"] = item.params.get("prior", 0)
    _report_history(res, paths, "value", lambda m, raws: ["".join(chr(c) if isinstance(c, int) else chr(ev(m, c)) for c in raw) for raw in raws], part)


PRIOR_FMT = "earlierSecret%d"     # the N earlier secrets of the run (longer than any symbolic secret, so never equal to one)


def _report_history(res, paths, mode, mk_inputs, part):
    from .. import replayers
    P = plain()
    prior = res.pop("_prior", 0)
    seen = set()
    nval = 0
    for p in paths:
        if p.model is None:
            continue
        if p.exc is not None:
            continue
        kind, blocks, raws, extra = p.result
        inputs = mk_inputs(p.model, raws)
        if kind.startswith("ok-"):
            continue
        if kind != "ok":
            cells = sorted({c07._cell_name(w) for w in _witness(p.model, blocks)})
            tag = "%s:%s:%s" % (kind, mode, "+".join(cells))
            if tag in seen:
                continue
            seen.add(tag)
            rr = replayers.secret_history(P, dict(mode=mode, inputs=inputs, part=part, extract=res.get("_extract"), prior=prior))
            res["violations"].append(dict(description="pseudonyms %s: %s" % (kind, rr.get("detail")), witness=dict(inputs=inputs, part=part, outputs=rr.get("observed")), tags=[tag, kind],
                                          replay=dict(replayer="secret_history", args=dict(mode=mode, inputs=inputs, part=part, extract=res.get("_extract"), prior=prior))))
            res["status"] = "violated"
        elif nval < 12:
            rr = replayers.secret_history(P, dict(mode=mode, inputs=inputs, part=part, extract=res.get("_extract"), prior=prior))
            if rr["violated"]:
                raise core.EngineError("concolic mismatch: plain code violates on %r (%s) but the symbolic path does not" % (inputs, rr["detail"]))
            nval += 1
            if len(res["samples"]) < 2:
                res["samples"].append(dict(inputs=inputs, equality_pattern=part, outputs=rr["observed"]))
    res["validated"] += nval
    res.pop("_extract", None)
    res["vacuity"] = "witnessed" if any(p.model is not None and p.exc is None for p in paths) else "VACUOUS"
    if res["vacuity"] != "witnessed":
        raise core.EngineError("no feasible path")


def _line_setup(fs, idx):
    f = fs[idx]
    pre, slot, suf = f.parts()
    return f, pre, slot, suf


def line_pair(item, res):
    """H2: two lines (forms a, b) through replace_matching_item with one shared lookup; secrets equal or different."""
    F = fam()
    fs, hv, st = c07._forms()
    fa, prea, slota, sufa = _line_setup(fs, item.params["a"])
    fb, preb, slotb, sufb = _line_setup(fs, item.params["b"])
    n, same = item.params["n"], item.params["same"]
    part = [0, 0] if same else [0, 1]
    reserved = sec.reserved()
    rx = sec.regexes()
    ex = Explorer(deadline=time.time() + item.budget_s)
    ctx_words = set((prea + " " + sufa + " " + preb + " " + sufb).split()) | {forms.SAMPLE_WORD}
    res["_extract"] = [[prea, sufa + "\n"], [preb, sufb + "\n"]]

    def h(ex_):
        blocks = _blocks(ex_, part, n)
        for b in blocks:
            for c in b:
                ex_.assume(core.in_set_expr(c, sec.SECRET_ALPHABET & slota.chars & slotb.chars))
            for w in ctx_words:
                if len(w) == n:
                    e = SStr(list(b)).eq_expr(w)
                    if not z3.is_false(e):
                        ex_.assume(z3.Not(e))
        lookup = models.SymDict()
        raws = [[ord(c) for c in prea] + list(blocks[part[0]]) + [ord(c) for c in sufa + "\n"], [ord(c) for c in preb] + list(blocks[part[1]]) + [ord(c) for c in sufb + "\n"]]
        cores = []
        for raw, (pre, suf) in zip(raws, res["_extract"] if "_extract" in res else [[prea, sufa + "\n"], [preb, sufb + "\n"]]):
            o = SStr.of(F.sir.replace_matching_item(rx, SStr.mk(list(raw)), lookup, "S", reserved))
            pl, sl = len(pre), len(suf)
            if len(o.cs) <= pl + sl or not (SStr(o.cs[:pl]).concrete() and SStr(o.cs[:pl]).plain() == pre and SStr(o.cs[len(o.cs) - sl:]).concrete() and SStr(o.cs[len(o.cs) - sl:]).plain() == suf):
                return ("ok-context-differs", blocks, raws, None)   # context handling is C09's subject
            cores.append(SStr.mk(o.cs[pl:len(o.cs) - sl]))
        res["finals"] += 1
        if _same(ex_, cores[0], cores[1]) != same:
            return ("inconsistent" if same else "collision", blocks, raws, (0, 1))
        res["finals_unsat"] += 1
        return ("ok", blocks, raws, cores)
    extract = res["_extract"]
    paths = ex.explore(h)
    harness.add_stats(res, ex)
    res["_extract"] = extract
    for p in paths:
        if p.exc is None and p.result[0] == "ok-context-differs":
            p.result = ("ok-skip",) + tuple(p.result[1:])
    paths2 = [p for p in paths if p.exc is not None or p.result[0] != "ok-skip"]
    _report_history(res, paths2 or paths, "line", lambda m, raws: ["".join(chr(c) if isinstance(c, int) else chr(ev(m, c)) for c in raw) for raw in raws], part)


def two_on_line(item, res):
    """H2: the same form twice on one line with two different secrets: they must receive different replacements."""
    F = fam()
    fs, hv, st = c07._forms()
    f, pre, slot, suf = _line_setup(fs, item.params["form"])
    n = item.params["n"]
    part = [0, 1]
    reserved = sec.reserved()
    rx = sec.regexes()
    ex = Explorer(deadline=time.time() + item.budget_s)
    ctx_words = set((pre + " " + suf).split()) | {forms.SAMPLE_WORD}
    pre2 = " " + pre.lstrip()

    def h(ex_):
        blocks = _blocks(ex_, part, n)
        for b in blocks:
            for c in b:
                ex_.assume(core.in_set_expr(c, sec.SECRET_ALPHABET & slot.chars))
            for w in ctx_words:
                if len(w) == n:
                    e = SStr(list(b)).eq_expr(w)
                    if not z3.is_false(e):
                        ex_.assume(z3.Not(e))
        raw = [ord(c) for c in pre] + list(blocks[0]) + [ord(c) for c in pre2] + list(blocks[1]) + [ord(c) for c in suf + "\n"]
        o = SStr.of(F.sir.replace_matching_item(rx, SStr.mk(list(raw)), models.SymDict(), "S", reserved))
        # tokens of the output line: find the two replacement tokens at the positions of the secrets (token index arithmetic)
        toks_in = (pre + "X" + pre2 + "Y" + suf).split()
        ia, ib = toks_in.index("X"), toks_in.index("Y")
        toks_out = _tokens(o)
        res["finals"] += 1
        if toks_out is None or len(toks_out) != len(toks_in):
            return ("ok-context-differs", blocks, [raw], None)
        ra, rb = toks_out[ia], toks_out[ib]
        if _same(ex_, ra, rb):
            return ("collision", blocks, [raw], (0, 1))
        res["finals_unsat"] += 1
        return ("ok", blocks, [raw], [ra, rb])
    toks_in = (pre + "X" + pre2 + "Y" + suf).split()
    res["_extract"] = [toks_in.index("X"), toks_in.index("Y")]
    paths = ex.explore(h)
    harness.add_stats(res, ex)
    _report_history(res, paths, "twice", lambda m, raws: ["".join(chr(c) if isinstance(c, int) else chr(ev(m, c)) for c in raw) for raw in raws], part)


def _tokens(o):
    """whitespace tokens of an output SStr whose whitespace characters are concrete"""
    toks, cur = [], []
    for c in o.cs:
        if isinstance(c, int) and chr(c).isspace():
            if cur:
                toks.append(SStr.mk(cur))
                cur = []
        else:
            cur.append(c)
    if cur:
        toks.append(SStr.mk(cur))
    return toks


ORDERS = list(itertools.permutations(["X", "Y", "P"]))


def juniper_equiv(item, res):
    """H3: X, Y = $9$ encodings (symbolic salt characters) of plaintext p (same=True) or of different plaintexts, P = the clear text p."""
    F = fam()
    J = F.jun
    order, n, same = ORDERS[item.params["order"]], item.params["n"], item.params["same"]
    reserved = sec.reserved()
    ex = Explorer(deadline=time.time() + item.budget_s)
    from .c18 import ALPHABET
    alpha = frozenset(ord(c) for c in ALPHABET)

    def h(ex_):
        p1 = [z3.BitVec("p%d" % i, 8) for i in range(n)]
        p2 = p1 if same else [z3.BitVec("q%d" % i, 8) for i in range(n)]
        for c in set(p1 + p2):
            pass
        sec.in_alphabet(ex_, p1)
        sec.not_reserved(ex_, p1)
        if not same:
            sec.in_alphabet(ex_, p2)
            sec.not_reserved(ex_, p2)
            ex_.assume(z3.Not(SStr(list(p1)).eq_expr(SStr(list(p2)))))
        s1, s2 = z3.BitVec("saltx", 8), z3.BitVec("salty", 8)
        for s_ in (s1, s2):
            ex_.assume(core.in_set_expr(s_, alpha))
            core.register_char_set(s_, alpha, scoped=True)
        X = J.juniper_nonrandom_encrypt(SStr.mk(list(p1)), SStr([s1]))
        Y = J.juniper_nonrandom_encrypt(SStr.mk(list(p2)), SStr([s2]))
        vals = {"X": X, "Y": Y, "P": SStr.mk(list(p1))}
        lookup = models.SymDict()
        outs = {}
        for k in order:
            outs[k] = F.sir._anonymize_value(vals[k], lookup, reserved, "S")
        res["finals"] += 1
        # the replacements of the $9$ values decrypt to the pseudonym of the plaintext; the clear text gets that pseudonym
        dx, dy = J.juniper_decrypt(outs["X"]), J.juniper_decrypt(outs["Y"])
        if same:
            ok = _same(ex_, dx, dy) and _same(ex_, dx, outs["P"]) and _same(ex_, outs["X"], outs["Y"])
        else:
            ok = (not _same(ex_, dx, dy)) and _same(ex_, dx, outs["P"])
        if not ok:
            return ("inconsistent" if same else "collision", [p1, p2, [s1], [s2]], [vals[k] for k in order], None)
        res["finals_unsat"] += 1
        return ("ok", [p1, p2, [s1], [s2]], [vals[k] for k in order], None)
    paths = ex.explore(h)
    harness.add_stats(res, ex)
    from .. import replayers
    P = plain()
    nval = 0
    seen = set()
    for p in paths:
        if p.model is None:
            continue
        if p.exc is not None:
            tag = "juniper-raises:%s" % type(p.exc).__name__
            if tag not in seen:
                seen.add(tag)
                # the harness's variables are named deterministically: the failing inputs are read off the path's model
                def val(prefix, k):
                    return "".join(chr(ev(p.model, z3.BitVec("%s%d" % (prefix, i), 8))) for i in range(k))
                wargs = dict(p1=val("p", n), p2=val("p" if same else "q", n), s1=chr(ev(p.model, z3.BitVec("saltx", 8))), s2=chr(ev(p.model, z3.BitVec("salty", 8))),
                             order=list(order), same=same)
                res["violations"].append(dict(description="processing $9$ values raises %s" % type(p.exc).__name__, witness=wargs, tags=[tag],
                                              replay=dict(replayer="secret_juniper", args=wargs)))
                res["status"] = "violated"
            continue
        kind, blocks, vals, _ = p.result
        w = ["".join(chr(ev(p.model, c)) for c in b) for b in blocks]
        args = dict(p1=w[0], p2=w[1], s1=w[2], s2=w[3], order=list(order), same=same)
        if kind != "ok":
            tag = "juniper-%s" % kind
            if tag in seen:
                continue
            seen.add(tag)
            rr = replayers.secret_juniper(P, args)
            res["violations"].append(dict(description="$9$ values keyed by plaintext: %s (%s)" % (kind, rr["detail"]), witness=args, tags=[tag, kind], replay=dict(replayer="secret_juniper", args=args)))
            res["status"] = "violated"
        elif nval < 10:
            rr = replayers.secret_juniper(P, args)
            if rr["violated"]:
                raise core.EngineError("concolic mismatch in juniper equivalence: %r %s" % (args, rr["detail"]))
            nval += 1
            if len(res["samples"]) < 2:
                res["samples"].append(dict(args=args, observed=rr["observed"]))
    res["validated"] += nval
    res["vacuity"] = "witnessed" if nval or seen else "VACUOUS"
    if res["vacuity"] != "witnessed":
        raise core.EngineError("no feasible path")


HARNESSES = {"value_history": value_history, "line_pair": line_pair, "two_on_line": two_on_line, "juniper_equiv": juniper_equiv}
