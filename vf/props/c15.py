"""C15 - Enabling several features equals applying them one after another."""
import itertools
import time
import z3

from .. import core, harness, models
from ..core import Explorer, SStr
from ..harness import Item, fam, plain, ev
from . import secrets as sec

USES_REGEX = True
INFO = dict(
    functions=["FileAnonymizer.__init__ (wiring of every optional stage from one salt / option set)", "FileAnonymizer.anonymize_io (fixed per-line order)",
               "replace_matching_item", "anonymize_ip_addr (IPv6 then IPv4, anonymize or undo)", "SensitiveWordAnonymizer.anonymize", "anonymize_as_numbers"],
    files=["netconan/anonymize_files.py"],
    assumptions=["reference = chain of single-feature FileAnonymizers of the same real class in the fixed order secrets, IP (v6 then v4), words, AS numbers, same salt and options",
                 "addresses, words and AS numbers in the inputs are concrete and md5 is the real one (so that each stage can rescan the previous stage's text and a stage wired to "
                 "another salt or option gives different text); the secret is symbolic", "v4 and v6 host-bit counts differ in the option set so that swapped wiring is visible"],
    outside=["inputs beyond the listed multi-line texts", "option values beyond the listed sets"],
)
FEATURES = ["pwd", "ip", "words", "as"]
OPTS = [dict(salt="saltX", suffix4=8, suffix6=16, networks=["10.0.0.0/8"], prefixes=None, reserved=["keeplon"]),
        dict(salt="", suffix4=0, suffix6=0, networks=None, prefixes=["12.0.0.0/8"], reserved=None),
        dict(salt="other salt", suffix4=24, suffix6=64, networks=None, prefixes=None, reserved=None)]
TEXT = ["username admin password 0 %s\n", "ip address 11.22.33.44 255.255.255.0 peer 2001:db8::1 via 10.1.2.3\n", "router lon-gw01 remote-as 65001 neighbor 1.2.3.4 keeplon\n",
        "snmp-server host 12.1.2.3 version 2c %s\n", " description lon 65001 fe80::1 ::ffff:1 \n"]


def kw_for(subset, o, undo=False):
    kw = dict(anon_pwd="pwd" in subset, anon_ip=("ip" in subset and not undo), undo_ip_anon=("ip" in subset and undo), salt=o["salt"])
    if "words" in subset:
        kw["sensitive_words"] = ["lon", "db8"]
    if "as" in subset:
        kw["as_numbers"] = ["65001", "650"]
    if "ip" in subset:
        kw.update(preserve_suffix_v4=o["suffix4"], preserve_suffix_v6=o["suffix6"], preserve_networks=o["networks"], preserve_prefixes=o["prefixes"])
    if o["reserved"]:
        kw["reserved_words"] = list(o["reserved"])
    return kw


def subsets():
    return [list(c) for r in range(0, 5) for c in itertools.combinations(FEATURES, r)]


def bounds(tier):
    return dict(subsets="all 16 feature subsets, and undo in place of IP anonymization", options=OPTS if tier == "thorough" else OPTS[:2], text=TEXT, secret="%d symbolic character(s)" % (1 if tier == "quick" else 2),
                streams="two anonymize_io calls on one object vs one call on the concatenation")


def items(tier, seed):
    out = []
    opts = range(len(OPTS)) if tier == "thorough" else (0, 1)
    for si in range(16):
        for oi in opts:
            n = 1 if tier == "quick" else 2
            out.append(Item("C15", "compose", dict(subset=si, opt=oi, undo=False, n=n), budget_s=600 if tier == "quick" else 2400, obligation="H1-subset-equals-chain"))
            if "ip" in subsets()[si]:
                out.append(Item("C15", "compose", dict(subset=si, opt=oi, undo=True, n=n), budget_s=600 if tier == "quick" else 2400, obligation="H1-subset-equals-chain-undo"))
    for si in (15, 5, 1):
        out.append(Item("C15", "streams", dict(subset=si, opt=0, n=1 if tier == "quick" else 2), budget_s=600, obligation="H2-two-streams-one-object"))
    return out


class In:
    def __init__(self, lines):
        self.lines = lines

    def readlines(self):
        return list(self.lines)


class Out:
    def __init__(self):
        self.w = []

    def write(self, s):
        self.w.append(s)


def _io(fa, lines):
    o = Out()
    fa.anonymize_io(In(lines), o)
    return o.w


def _lines(vs):
    out = []
    for t in TEXT:
        if "%s" in t:
            pre, suf = t.split("%s")
            out.append(SStr.mk([ord(c) for c in pre] + list(vs) + [ord(c) for c in suf]))
        else:
            out.append(t)
    return out


def _join(ws):
    cs = []
    for w in ws:
        cs.extend(SStr.of(w).cs)
    return SStr(cs)


def compose(item, res):
    F = fam()
    subset = subsets()[item.params["subset"]]
    o = OPTS[item.params["opt"]]
    undo = item.params["undo"]
    ex = Explorer(deadline=time.time() + item.budget_s)
    vs = sec.secret_vars(item.params.get("n", 2))

    def h(ex_):
        sec.in_alphabet(ex_, vs)
        sec.not_reserved(ex_, vs)
        models.ENV.md5_mode = "real"
        try:
            lines = _lines(vs)
            combined = _io(F.files.FileAnonymizer(**kw_for(subset, o, undo)), lines)
            cur = lines
            for f in FEATURES:
                if f in subset:
                    cur = _io(F.files.FileAnonymizer(**kw_for([f], o, undo)), cur)
        finally:
            models.ENV.md5_mode = "uninterpreted"
        res["finals"] += 1
        a, b = _join(combined), _join(cur)
        if len(a.cs) != len(b.cs):
            return ("differ", lines, combined, cur, None)
        m = ex_.model(z3.Not(a.eq_expr(b)))
        if m is None:
            res["finals_unsat"] += 1
            return ("ok", lines, combined, cur, None)
        return ("differ", lines, combined, cur, m)
    paths = ex.explore(h)
    harness.add_stats(res, ex)
    _report(item, res, paths, kw_for(subset, o, undo), subset, o, undo, "compose")


def _report(item, res, paths, kw, subset, o, undo, what):
    from .. import replayers
    P = plain()
    nval, seen = 0, False
    for p in paths:
        if p.model is None or p.exc is not None:
            continue
        kind, lines, x, y, m = p.result
        m = m or p.model
        clines = [ev(m, l) if not isinstance(l, str) else l for l in lines]
        args = dict(lines=clines, subset=subset, opt=o, undo=undo, what=what)
        if kind != "ok":
            if not seen:
                seen = True
                rr = replayers.compose(P, args)
                res["violations"].append(dict(description="multi-feature anonymizer differs from the chain of single-feature anonymizers (%s)" % rr["detail"][:300],
                                              witness=dict(features=subset, undo=undo, options=o, lines=clines), tags=["compose:%s" % "+".join(subset)],
                                              replay=dict(replayer="compose", args=args)))
                res["status"] = "violated"
        elif nval < 5:
            rr = replayers.compose(P, args)
            if rr["violated"]:
                raise core.EngineError("concolic mismatch: plain code differs on %r: %s" % (clines, rr["detail"]))
            nval += 1
            if len(res["samples"]) < 1:
                res["samples"].append(dict(features=subset, undo=undo, lines=clines[:2], output=rr["observed"][:2]))
    res["validated"] += nval
    res["vacuity"] = "witnessed" if any(p.model is not None and p.exc is None for p in paths) else "VACUOUS"
    if res["vacuity"] != "witnessed":
        excs = sorted({"%s: %s" % (type(p.exc).__name__, str(p.exc)[:200]) for p in paths if p.exc is not None})
        raise core.EngineError("no feasible path without exception (%s)" % "; ".join(excs[:3]))


def streams(item, res):
    """two anonymize_io calls on one object give what one call on the concatenation gives (and what two objects give for IPs)"""
    F = fam()
    subset = subsets()[item.params["subset"]]
    o = OPTS[item.params["opt"]]
    ex = Explorer(deadline=time.time() + item.budget_s)
    vs = sec.secret_vars(item.params.get("n", 2))

    def h(ex_):
        sec.in_alphabet(ex_, vs)
        sec.not_reserved(ex_, vs)
        models.ENV.md5_mode = "real"
        try:
            lines = _lines(vs)
            fa = F.files.FileAnonymizer(**kw_for(subset, o))
            two = _io(fa, lines[:2]) + _io(fa, lines[2:])
            one = _io(F.files.FileAnonymizer(**kw_for(subset, o)), lines)
        finally:
            models.ENV.md5_mode = "uninterpreted"
        res["finals"] += 1
        a, b = _join(two), _join(one)
        if len(a.cs) != len(b.cs):
            return ("differ", lines, two, one, None)
        m = ex_.model(z3.Not(a.eq_expr(b)))
        if m is None:
            res["finals_unsat"] += 1
            return ("ok", lines, two, one, None)
        return ("differ", lines, two, one, m)
    paths = ex.explore(h)
    harness.add_stats(res, ex)
    _report(item, res, paths, kw_for(subset, o), subset, o, False, "streams")


HARNESSES = {"compose": compose, "streams": streams}
