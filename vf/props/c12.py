"""C12 - Non-sensitive text and line structure are conserved."""
import itertools
import random
import time
import z3

from .. import core, harness, models
from ..core import Explorer, SStr
from ..harness import Item, fam, plain, ev
from . import secrets as sec

USES_REGEX = True
INFO = dict(
    functions=["FileAnonymizer.__init__", "FileAnonymizer.anonymize_io (per-line loop)", "replace_matching_item / _split_line / _extract_enclosing_text", "anonymize_ip_addr",
               "SensitiveWordAnonymizer.anonymize", "anonymize_as_numbers"],
    files=["netconan/anonymize_files.py", "netconan/sensitive_item_removal.py", "netconan/ip_anonymization.py"],
    assumptions=["whitespace characters are symbolic over CPython's str.isspace() set restricted to Latin-1, without line terminators inside a line",
                 "pipelines with the IP stage use the real md5 (addresses and the salt are concrete there, so that later stages can rescan the text)",
                 "benign vocabulary lines are harvested from the repo's own 'insensitive lines' tests and README-style configuration lines",
                 "in_io.readlines() returns the lines; decoding and newline translation of real files belong to the OS layer"],
    outside=["\\r\\n translation and decoding done by open()", "texts of more than 3 lines (locality makes every line independent except for the pseudonym counter)", "characters above U+00FF"],
)

FEATURES = ["pwd", "ip", "words", "as"]
BENIGN = [
    "interface GigabitEthernet0/1", "description uplink to core", "no shutdown", "router bgp", "logging buffered", "ntp server pool", "hostname edge", "line vty",
    "access-list permit any", "spanning-tree mode rapid-pvst", "snmp-server location rack", "banner motd welcome",
]
SENSITIVE = {"pwd": "username admin password 0 hunter2", "ip": "ip address 11.22.33.44 255.255.255.0", "words": "router lon-gw01", "as": "neighbor x remote-as 65001"}


def kw_for(subset):
    kw = dict(anon_pwd="pwd" in subset, anon_ip="ip" in subset, salt="S")
    if "words" in subset:
        kw["sensitive_words"] = ["lon", "lax"]
    if "as" in subset:
        kw["as_numbers"] = ["65001"]
    if "ip" in subset:
        kw["preserve_suffix_v4"] = 8
        kw["preserve_suffix_v6"] = 8
    return kw


def subsets():
    out = []
    for r in range(0, 5):
        for c in itertools.combinations(FEATURES, r):
            out.append(list(c))
    return out


def bounds(tier):
    return dict(structure="1..3 lines, last line with or without terminator, leading/trailing whitespace runs of up to 2 symbolic whitespace characters, inner separators symbolic; all 16 feature subsets",
                locality="output of a line alone vs after another line, all 16 subsets", verbatim="benign vocabulary lines %r with symbolic separators under all 16 subsets" % BENIGN[:6])


def items(tier, seed):
    out = []
    subs = subsets()
    for si in range(len(subs)):
        out.append(Item("C12", "structure", dict(subset=si, nlines=2, final_nl=True), budget_s=600, obligation="O1O2-lines-and-whitespace"))
        out.append(Item("C12", "structure", dict(subset=si, nlines=1, final_nl=False), budget_s=600, obligation="O1O2-lines-and-whitespace"))
        if tier == "thorough":
            out.append(Item("C12", "structure", dict(subset=si, nlines=3, final_nl=False), budget_s=2400, obligation="O1O2-lines-and-whitespace"))
        out.append(Item("C12", "locality", dict(subset=si), budget_s=600, obligation="O3-locality"))
        out.append(Item("C12", "verbatim", dict(subset=si, seed=seed), budget_s=600, obligation="O4-verbatim-tokens"))
    return out


class In:
    def __init__(self, lines):
        self.lines = lines

    def readlines(self):
        return list(self.lines)


class Out:
    def __init__(self):
        self.w = []

    def write(self, s):
        self.w.append(s)


WS_INLINE = frozenset(core.WS) - {10, 13, 11, 12, 28, 29, 30, 0x85}


def _ws(ex_, name, k):
    cs = [z3.BitVec("%s_%d" % (name, i), 8) for i in range(k)]
    for c in cs:
        ex_.assume(core.in_set_expr(c, WS_INLINE))
        core.register_char_set(c, WS_INLINE, scoped=True)
    return cs


def _mk_line(ex_, idx, text, lead, trail, nl=True):
    toks = text.split()
    cs = _ws(ex_, "L%d" % idx, lead)
    for j, t in enumerate(toks):
        if j:
            cs += _ws(ex_, "S%d_%d" % (idx, j), 1)
        cs += [ord(c) for c in t]
    cs += _ws(ex_, "T%d" % idx, trail)
    if nl:
        cs.append(10)
    return cs, lead, trail


def _run(F, lines, kw):
    models.ENV.md5_mode = "real"
    try:
        fa = F.files.FileAnonymizer(**kw)
        o = Out()
        fa.anonymize_io(In([SStr.mk(list(l)) for l in lines]), o)
        return o.w
    finally:
        models.ENV.md5_mode = "uninterpreted"


def structure(item, res):
    """O1/O2: one write per input line, in order; leading/trailing whitespace and the terminator unchanged."""
    F = fam()
    subset = subsets()[item.params["subset"]]
    kw = kw_for(subset)
    nlines, final_nl = item.params["nlines"], item.params["final_nl"]
    texts = [SENSITIVE[subset[i % len(subset)]] if subset else BENIGN[i] for i in range(nlines)]
    if nlines >= 2:
        texts[1] = BENIGN[0] if subset else BENIGN[1]
    ex = Explorer(deadline=time.time() + item.budget_s)

    def h(ex_):
        lines, meta = [], []
        for i, t in enumerate(texts):
            lead = ex_.choice(3, "lead")
            trail = ex_.choice(3, "trail")
            cs, _, _ = _mk_line(ex_, i, t, lead, trail, nl=(final_nl or i < nlines - 1))
            lines.append(cs)
            meta.append((lead, trail, final_nl or i < nlines - 1))
        outs = _run(F, lines, kw)
        res["finals"] += 1
        if len(outs) != len(lines):
            return ("line-count", lines, outs, None)
        bad = []
        for cs, o, (lead, trail, nl) in zip(lines, outs, meta):
            oc = SStr.of(o).cs
            tail = trail + (1 if nl else 0)
            if len(oc) < lead + tail:
                return ("whitespace-lost", lines, outs, None)
            if lead:
                bad.append(z3.Not(SStr(list(oc[:lead])).eq_expr(SStr(list(cs[:lead])))))
            if tail:
                bad.append(z3.Not(SStr(list(oc[len(oc) - tail:])).eq_expr(SStr(list(cs[len(cs) - tail:])))))
            # the first / last non-whitespace characters stay non-whitespace (no extra whitespace is added at the ends)
            mid = oc[lead:len(oc) - tail]
            if mid:
                for c in (mid[0], mid[-1]):
                    if isinstance(c, int):
                        if chr(c).isspace():
                            return ("whitespace-added", lines, outs, None)
        m = ex_.model(z3.Or(*bad)) if bad else None
        if m is None:
            res["finals_unsat"] += 1
            return ("ok", lines, outs, None)
        return ("whitespace-changed", lines, outs, m)
    paths = ex.explore(h)
    harness.add_stats(res, ex)
    _report(item, res, paths, kw, "structure")


def _report(item, res, paths, kw, what):
    from .. import replayers
    P = plain()
    seen = set()
    nval = 0
    for p in paths:
        if p.model is None or p.exc is not None:
            continue
        kind, lines, outs, m = p.result
        m = m or p.model
        clines = ["".join(chr(c) if isinstance(c, int) else chr(ev(m, c)) for c in l) for l in lines]
        if kind != "ok":
            tag = "%s:%s" % (what, kind)
            if tag in seen:
                continue
            seen.add(tag)
            rr = replayers.text_structure(P, dict(lines=clines, kw=kw, what=what, extra=p.extra.get("extra")))
            res["violations"].append(dict(description="%s: %s (%s)" % (what, kind, rr["detail"]), witness=dict(lines=clines, options=kw, outputs=rr["observed"]), tags=[tag],
                                          replay=dict(replayer="text_structure", args=dict(lines=clines, kw=kw, what=what, extra=p.extra.get("extra")))))
            res["status"] = "violated"
        elif nval < 6:
            rr = replayers.text_structure(P, dict(lines=clines, kw=kw, what=what, extra=p.extra.get("extra")))
            if rr["violated"]:
                raise core.EngineError("concolic mismatch: plain code violates %s on %r: %s" % (what, clines, rr["detail"]))
            nval += 1
            if len(res["samples"]) < 2:
                res["samples"].append(dict(lines=clines, features=[k for k in kw if kw[k]], outputs=rr["observed"]))
    res["validated"] += nval
    res["vacuity"] = "witnessed" if any(p.model is not None and p.exc is None for p in paths) else "VACUOUS"
    if res["vacuity"] != "witnessed":
        raise core.EngineError("no feasible path without exception")


def locality(item, res):
    """O3: the output of a line does not depend on the line before it (for secrets only the pseudonym number may)."""
    F = fam()
    subset = subsets()[item.params["subset"]]
    kw = kw_for(subset)
    ex = Explorer(deadline=time.time() + item.budget_s)
    first_opts = [BENIGN[0]] + [SENSITIVE[f] for f in FEATURES]
    second_opts = [BENIGN[2]] + [SENSITIVE[f] for f in FEATURES if f != "pwd"] + ["ip address 11.22.33.45 255.255.0.0"]

    def h(ex_):
        a = first_opts[ex_.choice(len(first_opts), "first")]
        b = second_opts[ex_.choice(len(second_opts), "second")]
        l1, _, _ = _mk_line(ex_, 0, a, 1, 0)
        l2, _, _ = _mk_line(ex_, 1, b, 1, 1)
        both = _run(F, [l1, l2], kw)
        alone = _run(F, [l2], kw)
        ex_.path_data["extra"] = dict(mode="locality")
        res["finals"] += 1
        if len(both) != 2 or len(alone) != 1:
            return ("line-count", [l1, l2], both, None)
        o1, o2 = SStr.of(both[1]), SStr.of(alone[0])
        if len(o1.cs) != len(o2.cs):
            return ("depends-on-previous-line", [l1, l2], both, None)
        m = ex_.model(z3.Not(o1.eq_expr(o2)))
        if m is None:
            res["finals_unsat"] += 1
            return ("ok", [l1, l2], both, None)
        return ("depends-on-previous-line", [l1, l2], both, m)
    paths = ex.explore(h)
    harness.add_stats(res, ex)
    _report(item, res, paths, kw, "locality")


def verbatim(item, res):
    """O4: lines of benign vocabulary come out token for token (inner whitespace may collapse when secrets/words are on)."""
    F = fam()
    subset = subsets()[item.params["subset"]]
    kw = kw_for(subset)
    rnd = random.Random(item.params["seed"] * 100 + item.params["subset"])
    pool = BENIGN + _harvest_benign()
    texts = rnd.sample(pool, min(len(pool), 6))
    ex = Explorer(deadline=time.time() + item.budget_s)
    collapse = ("pwd" in subset) or ("words" in subset)

    def h(ex_):
        t = texts[ex_.choice(len(texts), "line")]
        cs, lead, trail = _mk_line(ex_, 0, t, 1, 1)
        outs = _run(F, [cs], kw)
        ex_.path_data["extra"] = dict(mode="verbatim", collapse=collapse)
        res["finals"] += 1
        if len(outs) != 1:
            return ("line-count", [cs], outs, None)
        o = SStr.of(outs[0])
        toks_in = t.split()
        # expected: identical, or identical with every inner separator replaced by one space
        e_same = o.eq_expr(SStr(list(cs))) if len(o.cs) == len(cs) else z3.BoolVal(False)
        sp = list(cs[:lead])
        for j, tk in enumerate(toks_in):
            if j:
                sp.append(32)
            sp += [ord(c) for c in tk]
        sp += list(cs[len(cs) - trail - 1:])
        e_coll = o.eq_expr(SStr(sp)) if (collapse and len(o.cs) == len(sp)) else z3.BoolVal(False)
        m = ex_.model(z3.Not(z3.Or(e_same, e_coll)))
        if m is None:
            res["finals_unsat"] += 1
            return ("ok", [cs], outs, None)
        return ("token-changed", [cs], outs, m)
    paths = ex.explore(h)
    harness.add_stats(res, ex)
    _report(item, res, paths, kw, "verbatim")


_HB = []


def _harvest_benign():
    """benign lines from the repo's own 'insensitive lines' test list"""
    if _HB:
        return _HB
    import ast
    import os
    path = os.path.join(harness.REPO, "tests", "unit", "test_sensitive_item_removal.py")
    try:
        src = open(path, encoding="utf-8").read()
        tree = ast.parse(src)
        for node in ast.walk(tree):
            if isinstance(node, ast.FunctionDef) and node.name == "test_pwd_removal_insensitive_lines":
                for dec in node.decorator_list:
                    for n in ast.walk(dec):
                        if isinstance(n, ast.Constant) and isinstance(n.value, str) and " " in n.value and all(ord(c) < 128 for c in n.value) and "\n" not in n.value:
                            _HB.append(n.value.strip())
    except (OSError, SyntaxError):
        pass
    # keep lines that really are benign for every stage (no digits-with-dots, no listed words / AS numbers)
    import re
    keep = [l for l in _HB if not re.search(r"\d+\.\d+|:|lon|lax|65001", l)]
    _HB[:] = keep[:20]
    return _HB


HARNESSES = {"structure": structure, "locality": locality, "verbatim": verbatim}
