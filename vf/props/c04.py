"""C04 - Preserved prefixes and preserved host bits survive anonymization."""
import ipaddress
import z3

from .. import core, harness
from ..harness import Item, ev
from . import ipcommon as ipc

INFO = dict(
    functions=["IpAnonymizer.__init__ (prefix seeding, default list)", "_BaseIpAnonymizer.anonymize (suffix split)", "_anonymize_bits",
               "_generate_bit_from_hash", "IpV6Anonymizer", "stdlib ipaddress.ip_network"],
    files=["netconan/ip_anonymization.py"],
    assumptions=["md5 is an uninterpreted function (all salts)", "membership oracle: prefix bits computed independently from the configuration text with the plain stdlib ipaddress"],
    outside=["prefix lists outside the configuration family", "the CLI default of 8 host bits is checked in C19"],
)


def bounds(tier):
    return dict(symbolic_prefixes="every single user prefix of length %s and every pair of user prefixes of lengths %s (network bits symbolic: nested, disjoint and equal prefixes included)" % (
                    "8, 25" if tier == "quick" else "0,1,7,8,9,16,23,24,25,31,32", "(8,12)" if tier == "quick" else "(8,12),(8,8),(16,24),(1,32),(24,25)"),
                addresses="all addresses", hash="all functions", v4_configs=[ipc.cfg_key(c) for c in ipc.configs_v4(tier)],
                v6_host_bits=[c["B"] for c in ipc.configs_v6(tier)])


def items(tier, seed):
    out = [Item("C04", "preserve", dict(family=4, cfg=c), budget_s=300, obligation="H1H2-prefix-and-host-bits-v4") for c in ipc.configs_v4(tier)]
    out += [Item("C04", "preserve", dict(family=6, cfg=c), budget_s=600, obligation="H2-host-bits-v6") for c in ipc.configs_v6(tier)]
    single = [8, 25] if tier == "quick" else [0, 1, 7, 8, 9, 16, 23, 24, 25, 31, 32]
    for L in single:
        for B in ((0, 8) if tier == "quick" else (0, 8, 12)):
            out.append(Item("C04", "sym_prefix", dict(lengths=[L], B=B), budget_s=600, obligation="H1-every-user-prefix-of-a-length"))
    for L1, L2 in ([(8, 12)] if tier == "quick" else [(8, 12), (8, 8), (16, 24), (1, 32), (24, 25)]):
        out.append(Item("C04", "sym_prefix", dict(lengths=[L1, L2], B=0), budget_s=900 if tier == "quick" else 3000, obligation="H1-every-pair-of-user-prefixes"))
    return out


def configured_prefixes(cfg):
    """what the configuration says must be preserved (computed from the config, not from the memo)"""
    pf = list(ipc.CLASSES) + list(ipc.RFC1918) if cfg["prefixes"] is None else list(cfg["prefixes"])
    return pf + list(cfg["networks"] or [])


def member(x, net_text, W=32):
    n = ipaddress.ip_network(net_text)
    L = n.prefixlen
    if L == 0:
        return z3.BoolVal(True)
    return z3.Extract(W - 1, W - L, x) == z3.BitVecVal(int(n.network_address) >> (W - L), L)


def preserve(item, res):
    cfg, family = item.params["cfg"], item.params["family"]
    W, B = ipc.width(family), cfg["B"] or 0
    A = ipc.Summary(cfg, family, "anonymize", "a", budget_s=item.budget_s, res=res)
    if A.coverage_gap() is not None:
        raise core.EngineError("summary does not cover the input space")
    a = A.var
    oa = A.expr()
    m = ipc.final_check(res, None, A.exc_cond())
    viol = []
    if m is not None:
        viol.append(("anonymize raises", m, ["anonymize-raises"], None))
    if family == 4:
        pfs = configured_prefixes(cfg)
        if pfs:
            bad = z3.Or(*[member(a, p) != member(oa, p) for p in pfs])
            m = ipc.final_check(res, None, bad)
            if m is not None:
                which = [p for p in pfs if z3.is_true(m.eval(member(a, p) != member(oa, p), model_completion=True))]
                viol.append(("address moved across a preserved prefix %s" % which, m, ["prefix-membership"], which))
    if B > 0:
        Bq = min(B, W)
        m = ipc.final_check(res, None, z3.Extract(Bq - 1, 0, oa) != z3.Extract(Bq - 1, 0, a))
        if m is not None:
            viol.append(("preserved host bits changed", m, ["host-bits"], None))
        if Bq < W:
            b = z3.BitVec("b", W)
            ob = A.expr(b)
            m = ipc.final_check(res, None, z3.And(z3.Extract(W - 1, Bq, a) == z3.Extract(W - 1, Bq, b),
                                                  z3.Extract(W - 1, Bq, oa) != z3.Extract(W - 1, Bq, ob)))
            if m is not None:
                viol.append(("leading bits of the image depend on the preserved host bits", m, ["host-bits-dependence"], None))
    for desc, m, tags, extra in viol[:3]:
        av = ev(m, a)
        table, rr = ipc.md5_table_for(m, cfg, family, [["a", av]])
        bv = ev(m, z3.BitVec("b", W)) if "host-bits-dependence" in tags else None
        if bv is not None:
            table, rr = ipc.md5_table_for(m, cfg, family, [["a", av], ["a", bv]])
        res["violations"].append(dict(description=desc, witness=dict(a=av, b=bv, cfg=ipc.cfg_key(cfg), fresh=rr["fresh"], prefixes=extra), tags=tags,
                                      replay=dict(replayer="ip_preserve", args=dict(family=family, cfg=cfg, a=av, b=bv, md5_table=table))))
        res["status"] = "violated"
    p0 = A.cases[0][3]
    res["samples"].append(dict(config=ipc.cfg_key(cfg), family=family, summary_paths=len(A.cases),
                               example=dict(a=ev(p0.model, a), image=ev(p0.model, A.cases[0][1])) if p0.model is not None and A.cases[0][1] is not None else None))
    # vacuity twin: some address inside / outside the preserved prefixes is actually moved
    tw = ipc.final_check(res, None, oa != a)
    res["finals"] -= 1
    res["vacuity"] = "witnessed" if (tw is not None or B >= W - 8 or "0.0.0.0/0" in (cfg["prefixes"] or [])) else "VACUOUS"
    if res["vacuity"] != "witnessed":
        raise core.EngineError("vacuity twin failed")


def sym_prefix(item, res):
    """H1/H2 for *every* user prefix of the given lengths: the network bits of the preserved prefixes are symbolic."""
    import time
    from ..core import Explorer, SInt
    lengths, B = item.params["lengths"], item.params["B"]
    W = 32
    a, sa = ipc.sym_addr("a", W)
    ex = Explorer(deadline=time.time() + item.budget_s)
    found = []

    def h(ex_):
        an, tops = ipc.make_with_symbolic_prefix(ex_, lengths, B)
        r = ipc.out_bv(an.anonymize(sa), W)
        bad = [ipc.in_sym_prefix(a, t, L) != ipc.in_sym_prefix(r, t, L) for t, L in tops]
        if B:
            Bq = min(B, W)
            bad.append(z3.Extract(Bq - 1, 0, r) != z3.Extract(Bq - 1, 0, a))
        res["finals"] += 1
        m = ex_.model(z3.Or(*bad))
        if m is None:
            res["finals_unsat"] += 1
            return ("ok", r, tops)
        found.append((m, tops))
        return ("cex", r, tops)
    paths = ex.explore(h)
    harness.add_stats(res, ex)

    def concrete_cfg(m, tops):
        pf = []
        for t, L in tops:
            v = (ev(m, t) << (32 - L)) if L else 0
            pf.append("%s/%d" % (ipaddress.IPv4Address(v), L))
        return dict(prefixes=pf, networks=None, B=B)
    nval = 0
    for p in paths:
        if p.exc is not None and p.model is not None:
            found.append((p.model, p.extra.get("tops") or [(None, 0)]))
        elif p.model is not None and nval < 25:
            cfg = concrete_cfg(p.model, p.result[2])
            av = ev(p.model, a)
            _, rr = ipc.md5_table_for(p.model, cfg, 4, [["a", av]])
            if rr["fresh"][0] != ev(p.model, p.result[1]):
                raise core.EngineError("concolic mismatch with symbolic prefix %r: a=%d %r vs %r" % (cfg["prefixes"], av, rr["fresh"], ev(p.model, p.result[1])))
            nval += 1
            if len(res["samples"]) < 2:
                res["samples"].append(dict(prefixes=cfg["prefixes"], B=B, a=av, image=rr["fresh"][0]))
    res["validated"] += nval
    for m, tops in found[:3]:
        if tops[0][0] is None and tops[0][1] != 0:
            continue
        cfg = concrete_cfg(m, tops)
        av = ev(m, a)
        table, rr = ipc.md5_table_for(m, cfg, 4, [["a", av]])
        res["violations"].append(dict(description="user prefix %r not preserved (or host bits changed)" % cfg["prefixes"], witness=dict(a=av, cfg=ipc.cfg_key(cfg), fresh=rr["fresh"]),
                                      tags=["prefix-membership"], replay=dict(replayer="ip_preserve", args=dict(family=4, cfg=cfg, a=av, b=None, md5_table=table))))
        res["status"] = "violated"
    res["vacuity"] = "witnessed" if any(p.model is not None for p in paths) else "VACUOUS"
    if res["vacuity"] != "witnessed":
        raise core.EngineError("no feasible path")


HARNESSES = {"preserve": preserve, "sym_prefix": sym_prefix}
