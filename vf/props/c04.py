"""C04 - Preserved prefixes and preserved host bits survive anonymization."""
import ipaddress
import z3

from .. import core, harness
from ..harness import Item, ev
from . import ipcommon as ipc

INFO = dict(
    functions=["IpAnonymizer.__init__ (prefix seeding, default list)", "_BaseIpAnonymizer.anonymize (suffix split)", "_anonymize_bits",
               "_generate_bit_from_hash", "IpV6Anonymizer", "stdlib ipaddress.ip_network"],
    files=["netconan/ip_anonymization.py"],
    assumptions=["md5 is an uninterpreted function (all salts)", "membership oracle: prefix bits computed independently from the configuration text with the plain stdlib ipaddress"],
    outside=["prefix lists outside the configuration family", "the CLI default of 8 host bits is checked in C19"],
)


def bounds(tier):
    return dict(addresses="all addresses", hash="all functions", v4_configs=[ipc.cfg_key(c) for c in ipc.configs_v4(tier)],
                v6_host_bits=[c["B"] for c in ipc.configs_v6(tier)])


def items(tier, seed):
    out = [Item("C04", "preserve", dict(family=4, cfg=c), budget_s=300, obligation="H1H2-prefix-and-host-bits-v4") for c in ipc.configs_v4(tier)]
    out += [Item("C04", "preserve", dict(family=6, cfg=c), budget_s=600, obligation="H2-host-bits-v6") for c in ipc.configs_v6(tier)]
    return out


def configured_prefixes(cfg):
    """what the configuration says must be preserved (computed from the config, not from the memo)"""
    pf = list(ipc.CLASSES) + list(ipc.RFC1918) if cfg["prefixes"] is None else list(cfg["prefixes"])
    return pf + list(cfg["networks"] or [])


def member(x, net_text, W=32):
    n = ipaddress.ip_network(net_text)
    L = n.prefixlen
    if L == 0:
        return z3.BoolVal(True)
    return z3.Extract(W - 1, W - L, x) == z3.BitVecVal(int(n.network_address) >> (W - L), L)


def preserve(item, res):
    cfg, family = item.params["cfg"], item.params["family"]
    W, B = ipc.width(family), cfg["B"] or 0
    A = ipc.Summary(cfg, family, "anonymize", "a", budget_s=item.budget_s, res=res)
    if A.coverage_gap() is not None:
        raise core.EngineError("summary does not cover the input space")
    a = A.var
    oa = A.expr()
    m = ipc.final_check(res, None, A.exc_cond())
    viol = []
    if m is not None:
        viol.append(("anonymize raises", m, ["anonymize-raises"], None))
    if family == 4:
        pfs = configured_prefixes(cfg)
        if pfs:
            bad = z3.Or(*[member(a, p) != member(oa, p) for p in pfs])
            m = ipc.final_check(res, None, bad)
            if m is not None:
                which = [p for p in pfs if z3.is_true(m.eval(member(a, p) != member(oa, p), model_completion=True))]
                viol.append(("address moved across a preserved prefix %s" % which, m, ["prefix-membership"], which))
    if B > 0:
        Bq = min(B, W)
        m = ipc.final_check(res, None, z3.Extract(Bq - 1, 0, oa) != z3.Extract(Bq - 1, 0, a))
        if m is not None:
            viol.append(("preserved host bits changed", m, ["host-bits"], None))
        if Bq < W:
            b = z3.BitVec("b", W)
            ob = A.expr(b)
            m = ipc.final_check(res, None, z3.And(z3.Extract(W - 1, Bq, a) == z3.Extract(W - 1, Bq, b),
                                                  z3.Extract(W - 1, Bq, oa) != z3.Extract(W - 1, Bq, ob)))
            if m is not None:
                viol.append(("leading bits of the image depend on the preserved host bits", m, ["host-bits-dependence"], None))
    for desc, m, tags, extra in viol[:3]:
        av = ev(m, a)
        table, rr = ipc.md5_table_for(m, cfg, family, [["a", av]])
        bv = ev(m, z3.BitVec("b", W)) if "host-bits-dependence" in tags else None
        if bv is not None:
            table, rr = ipc.md5_table_for(m, cfg, family, [["a", av], ["a", bv]])
        res["violations"].append(dict(description=desc, witness=dict(a=av, b=bv, cfg=ipc.cfg_key(cfg), fresh=rr["fresh"], prefixes=extra), tags=tags,
                                      replay=dict(replayer="ip_preserve", args=dict(family=family, cfg=cfg, a=av, b=bv, md5_table=table))))
        res["status"] = "violated"
    p0 = A.cases[0][3]
    res["samples"].append(dict(config=ipc.cfg_key(cfg), family=family, summary_paths=len(A.cases),
                               example=dict(a=ev(p0.model, a), image=ev(p0.model, A.cases[0][1])) if p0.model is not None and A.cases[0][1] is not None else None))
    # vacuity twin: some address inside / outside the preserved prefixes is actually moved
    tw = ipc.final_check(res, None, oa != a)
    res["finals"] -= 1
    res["vacuity"] = "witnessed" if (tw is not None or B >= W or "0.0.0.0/0" in (cfg["prefixes"] or [])) else "VACUOUS"
    if res["vacuity"] != "witnessed":
        raise core.EngineError("vacuity twin failed")


HARNESSES = {"preserve": preserve}
