"""C13 - Same salt, options and input give byte-identical output, always."""
import time
import z3

from .. import core, harness, models
from ..core import Explorer, SStr
from ..harness import Item, fam, plain, ev
from . import secrets as sec

USES_REGEX = True
INFO = dict(
    functions=["FileAnonymizer.__init__", "FileAnonymizer.anonymize_io", "replace_matching_item / _anonymize_value (static vs random salts of replacements)",
               "SensitiveWordAnonymizer.__init__ / _generate_sensitive_word_regex (iteration over the word set)", "default_reserved_words (module-level set)",
               "IpAnonymizer / IpV6Anonymizer / AsNumberAnonymizer construction"],
    files=["netconan/anonymize_files.py", "netconan/sensitive_item_removal.py", "netconan/default_reserved_words.py", "netconan/ip_anonymization.py"],
    assumptions=["environment = arbitrary values: iteration order of every set of up to 4 elements is an arbitrary permutation (hash seed), random.choice and passlib's random salt "
                 "return fresh symbols that are NOT shared between the two compared runs, md5 is a fixed uninterpreted function",
                 "two runs are compared by self-composition inside one symbolic execution; replays use two real interpreter processes with different PYTHONHASHSEED",
                 "imports of modules the engine has no model for (time, os.urandom, uuid ...) are refused by the loader (inconclusive), so such sources of nondeterminism cannot go unnoticed"],
    outside=["inputs beyond the listed line families", "iteration order of sets with more than 4 elements (iterated in one fixed order, counted in the evidence)", "locale / time zone (not used by the code)"],
)

SECRET_LINES = ["username admin password 0 %s\n", "enable secret 5 $1$ab$%s.\n", "username noc secret sha512 $6$%s$abc\n", "set secret \"$9$%sAB\"\n", "password 7 02%s\n", "key %s\n"]
WORD_SETS = [["sea", "lax"], ["sea", "seattle"], ["sea", "seattle", "attle"], ["lon", "long"]]
WORD_LINES = ["router sea-lax01 seattle\n", "host longest lon\n"]
OTHER_LINES = ["ip address 11.22.33.44 255.255.255.0\n", "neighbor 2001:db8::1 remote-as 65001\n"]


def bounds(tier):
    return dict(secrets="line templates %r with a %d-character symbolic body" % (SECRET_LINES, 2), words="word lists %r on lines %r, every iteration order" % (WORD_SETS, WORD_LINES),
                other=OTHER_LINES, history="an earlier FileAnonymizer with one user reserved word of up to 3 symbolic characters / other salt / other sensitive words",
                no_salt="salt=None: generated 16-character salt is the logged one and re-running with it reproduces the output")


def items(tier, seed):
    out = []
    for i in range(len(SECRET_LINES)):
        out.append(Item("C13", "twice", dict(kind="secret", line=i), budget_s=600, obligation="H1-two-runs-secrets"))
    for salt in ("_x", "", "\u00e9t\u00e9"):
        out.append(Item("C13", "twice", dict(kind="secret", line=3, salt=salt), budget_s=600, obligation="H1-two-runs-secrets"))
        out.append(Item("C13", "twice", dict(kind="words", words=0, line=0, salt=salt), budget_s=600, obligation="H1-two-runs-words"))
    for wi in range(len(WORD_SETS)):
        for li in range(len(WORD_LINES)):
            out.append(Item("C13", "twice", dict(kind="words", words=wi, line=li), budget_s=600, obligation="H1-two-runs-words"))
    for i in range(len(OTHER_LINES)):
        out.append(Item("C13", "twice", dict(kind="other", line=i), budget_s=600, obligation="H1-two-runs-ip-as"))
    for n in ((1, 2) if tier == "quick" else (1, 2, 3)):
        out.append(Item("C13", "earlier", dict(what="reserved", n=n), budget_s=600 if tier == "quick" else 3000, obligation="H2-earlier-anonymizers"))
    for n in ((1,) if tier == "quick" else (1, 2)):
        out.append(Item("C13", "earlier", dict(what="reserved-words", n=n), budget_s=600 if tier == "quick" else 3000, obligation="H2-earlier-anonymizers"))
    out.append(Item("C13", "earlier", dict(what="words", n=0), budget_s=600, obligation="H2-earlier-anonymizers"))
    out.append(Item("C13", "earlier", dict(what="salt", n=0), budget_s=600, obligation="H2-earlier-anonymizers"))
    for i in ((0,) if tier == "quick" else (0, 1, 3, 5)):
        out.append(Item("C13", "nosalt", dict(line=i), budget_s=900 if tier == "quick" else 3000, obligation="H3-no-salt-contract"))
    out.append(Item("C13", "nosalt", dict(line=-1), budget_s=900, obligation="H3-no-salt-contract"))
    return out


class In:
    def __init__(self, lines):
        self.lines = lines

    def readlines(self):
        return list(self.lines)


class Out:
    def __init__(self):
        self.w = []

    def write(self, s):
        self.w.append(s)


def _run(F, lines, **kw):
    # pipelines that anonymize (concrete) addresses use the real md5: a rendered symbolic address could not be
    # rescanned by the later stages.  The hash is not an environment input, so determinism claims are unaffected.
    models.ENV.md5_mode = "real" if (kw.get("anon_ip") and kw.get("salt") is not None and isinstance(kw.get("salt"), str)) else "uninterpreted"
    try:
        return _run0(F, lines, **kw)
    finally:
        models.ENV.md5_mode = "uninterpreted"


def _run0(F, lines, **kw):
    fa = F.files.FileAnonymizer(**kw)
    o = Out()
    fa.anonymize_io(In(lines), o)
    cs = []
    for w in o.w:
        cs.extend(SStr.of(w).cs)
    return SStr.mk(cs), fa


def _setup(params):
    kind = params["kind"]
    if kind == "secret":
        vs = sec.secret_vars(2)
        tpl = SECRET_LINES[params["line"]]
        pre, suf = tpl.split("%s")
        line = SStr.mk([ord(c) for c in pre] + vs + [ord(c) for c in suf])
        return [line], dict(anon_pwd=True, anon_ip=False, salt="S"), vs
    if kind == "words":
        return [WORD_LINES[params["line"]]], dict(anon_pwd=False, anon_ip=False, salt="S", sensitive_words=list(WORD_SETS[params["words"]])), []
    return [OTHER_LINES[params["line"]]], dict(anon_pwd=False, anon_ip=True, salt="S", as_numbers=["65001"], preserve_suffix_v4=8, preserve_suffix_v6=8), []


def twice(item, res):
    """H1: the same construction + run executed twice with independent environment draws must give equal output."""
    F = fam()
    lines, kw, vs = _setup(item.params)
    if "salt" in item.params:
        kw["salt"] = item.params["salt"]
    ex = Explorer(deadline=time.time() + item.budget_s)

    def h(ex_):
        if vs:
            alpha = sec.SECRET_ALPHABET if item.params["line"] != 3 else sec.J9
            sec.in_alphabet(ex_, vs, alpha)
            sec.not_reserved(ex_, vs)
        models.ENV.tag = "A"
        o1, _ = _run(F, lines, **kw)
        models.ENV.tag = "B"
        o2, _ = _run(F, lines, **kw)
        models.ENV.tag = ""
        res["finals"] += 1
        if isinstance(o1, str) and isinstance(o2, str):
            if o1 == o2:
                res["finals_unsat"] += 1
                return ("ok", o1, o2)
            return ("differ", o1, o2)
        e = SStr.of(o1).eq_expr(SStr.of(o2)) if len(SStr.of(o1).cs) == len(SStr.of(o2).cs) else z3.BoolVal(False)
        m = ex_.model(z3.Not(e))
        if m is None:
            res["finals_unsat"] += 1
            return ("ok", o1, o2)
        ex_.stop_requested = True
        return ("differ", o1, o2, m)
    paths = ex.explore(h)
    harness.add_stats(res, ex)
    _report(item, res, paths, lines, kw, vs)


def _concrete_lines(m, lines):
    return [ev(m, l) if not isinstance(l, str) else l for l in lines]


def _report(item, res, paths, lines, kw, vs, label="two runs with the same salt, options and input"):
    from .. import replayers
    seen = set()
    nval = 0
    for p in paths:
        if p.model is None:
            continue
        if p.exc is not None:
            continue    # totality is C14's subject
        kind = p.result[0]
        m = p.result[3] if len(p.result) > 3 else p.model
        clines = _concrete_lines(m, lines)
        if kind == "differ":
            o1, o2 = p.result[1], p.result[2]
            env = sorted({n.split("!")[0].rstrip("AB") for n in (sec.symbols_of(o1) | sec.symbols_of(o2)) if n.startswith("env_")})
            tag = "nondeterministic:%s:%s" % (item.params.get("kind", item.harness), "+".join(env) if env else "set-order")
            if tag in seen:
                continue
            seen.add(tag)
            res["violations"].append(dict(description="%s differ (%s)" % (label, tag), witness=dict(lines=clines, options={k: v for k, v in kw.items()},
                                                                                               outputs=[ev(m, o1) if not isinstance(o1, str) else o1, ev(m, o2) if not isinstance(o2, str) else o2]),
                                          tags=[tag], replay=dict(replayer="determinism", args=dict(lines=clines, kw=kw))))
            res["status"] = "violated"
        elif nval < 6:
            nval += 1
            if len(res["samples"]) < 2:
                res["samples"].append(dict(lines=clines, output=ev(m, p.result[1]) if not isinstance(p.result[1], str) else p.result[1]))
    res["validated"] += nval
    res["vacuity"] = "witnessed" if any(p.model is not None for p in paths) else "VACUOUS"
    if res["vacuity"] != "witnessed":
        raise core.EngineError("no feasible path")


def earlier(item, res):
    """H2: an unrelated anonymizer constructed earlier in the process must not change the output."""
    F = fam()
    what, n = item.params["what"], item.params["n"]
    ex = Explorer(deadline=time.time() + item.budget_s)
    ws = [z3.BitVec("r%d" % i, 8) for i in range(n)]
    kw = dict(anon_pwd=True, anon_ip=(not what.startswith("reserved")), salt="S", sensitive_words=["sea"], preserve_suffix_v4=8, preserve_suffix_v6=8)

    def lines_for():
        if what.startswith("reserved"):
            return [SStr.mk([ord(c) for c in "username admin password 0 "] + ws + [10]), SStr.mk([ord(c) for c in "router "] + ws + [ord(c) for c in "sea x\n"])]
        return ["username admin password 0 hunter2\n", "router sea01 1.2.3.4\n"]

    def h(ex_):
        for c in ws:
            ex_.assume(core.in_set_expr(c, sec.SECRET_ALPHABET))
            core.register_char_set(c, sec.SECRET_ALPHABET, scoped=True)
        if ws:
            sec.not_reserved(ex_, ws)
        lines = lines_for()
        o_clean, _ = _run(F, lines, **kw)
        fam().reset_reserved()
        if what == "reserved":
            F.files.FileAnonymizer(anon_pwd=True, anon_ip=False, salt="other", reserved_words=[SStr.mk(list(ws))])
        elif what == "reserved-words":
            # an earlier anonymizer whose user reserved word contains the sensitive word (kept by that anonymizer's word stage)
            F.files.FileAnonymizer(anon_pwd=True, anon_ip=False, salt="other", sensitive_words=["sea"], reserved_words=[SStr.mk(list(ws) + [ord(c) for c in "sea"])])
        elif what == "words":
            _run(F, ["seattle lax\n"], anon_pwd=True, anon_ip=True, salt="other", sensitive_words=["lax", "attle"], reserved_words=None)
        else:
            _run(F, lines, anon_pwd=True, anon_ip=True, salt="other", sensitive_words=["sea"])
        o_after, _ = _run(F, lines, **kw)
        res["finals"] += 1
        e = SStr.of(o_clean).eq_expr(SStr.of(o_after)) if not (isinstance(o_clean, str) and isinstance(o_after, str)) else z3.BoolVal(o_clean == o_after)
        m = ex_.model(z3.Not(e))
        if m is None:
            res["finals_unsat"] += 1
            return ("ok", o_clean, o_after)
        return ("differ", o_clean, o_after, m)
    paths = ex.explore(h)
    harness.add_stats(res, ex)
    seen = set()
    for p in paths:
        if p.model is None or p.exc is not None:
            continue
        if p.result[0] == "differ":
            m = p.result[3]
            w = "".join(chr(ev(m, c)) for c in ws)
            tag = "earlier-anonymizer:%s" % what
            if tag in seen:
                continue
            seen.add(tag)
            clines = _concrete_lines(m, lines_for())
            res["violations"].append(dict(description="an anonymizer constructed earlier in the process (%s) changes the output" % what,
                                          witness=dict(word=w, lines=clines, outputs=[ev(m, p.result[1]) if not isinstance(p.result[1], str) else p.result[1],
                                                                                      ev(m, p.result[2]) if not isinstance(p.result[2], str) else p.result[2]]),
                                          tags=[tag], replay=dict(replayer="earlier_anonymizer", args=dict(what=what, word=w, lines=clines, kw=kw))))
            res["status"] = "violated"
        elif len(res["samples"]) < 2:
            res["samples"].append(dict(what=what, output=ev(p.model, p.result[1]) if not isinstance(p.result[1], str) else p.result[1]))
            res["validated"] += 1
    res["vacuity"] = "witnessed" if any(p.model is not None for p in paths) else "VACUOUS"
    if res["vacuity"] != "witnessed":
        raise core.EngineError("no feasible path")


def nosalt(item, res):
    """H3: without a salt, the generated salt is the one reported, and re-running with it reproduces the output."""
    F = fam()
    li = item.params["line"]
    ex = Explorer(deadline=time.time() + item.budget_s)
    if li >= 0:
        pre, suf = SECRET_LINES[li].split("%s")
        lines = [pre + ("ab" if li != 3 else "Qz") + suf, "router sea-lax01\n"]
        kw = dict(anon_pwd=True, anon_ip=False, sensitive_words=["sea"])
    else:
        # the generated salt is symbolic, so address images are rendered symbolic values: one address per line and
        # family, nothing after it that a later stage would have to rescan
        # IP stage: an address image under a symbolic salt is a rendered symbolic value that the later stages could not
        # rescan, so for the IP stage the obligation is checked on the wiring: every stage object holds the reported salt
        lines = ["router sea-lax01 as 65001\n"]
        kw = dict(anon_pwd=False, anon_ip=False, sensitive_words=["sea"], as_numbers=["65001"])

    def h(ex_):
        models.ENV.tag = "A"
        o1, fa = _run(F, lines, salt=None, **kw)
        logged = [a for lvl, msg, a in models.ENV.log if lvl >= 30 and a and isinstance(a[0], (str, SStr)) and "salt" in str(msg)]
        models.ENV.tag = "B"
        if not logged:
            return ("salt-not-reported", o1, None)
        reported = logged[0][0]
        if li < 0:
            fa_ip = F.files.FileAnonymizer(anon_pwd=False, anon_ip=True, salt=None, preserve_suffix_v4=8, preserve_suffix_v6=8)
            rep_ip = [a for lvl, msg, a in models.ENV.log if lvl >= 30 and a and isinstance(a[0], (str, SStr)) and "salt" in str(msg)][-1][0]
            for attr in ("anonymizer4", "anonymizer6"):
                st = getattr(fa_ip, attr, None)
                if st is not None and hasattr(st, "salt"):
                    e = SStr.of(st.salt).eq_expr(SStr.of(rep_ip))
                    if ex_.is_sat(z3.Not(e)):
                        return ("ip-stage-uses-another-salt", o1, None)
        o2, _ = _run(F, lines, salt=reported, **kw)
        models.ENV.tag = ""
        res["finals"] += 1
        if isinstance(o1, str) and isinstance(o2, str):
            e = z3.BoolVal(o1 == o2)
        else:
            a, b = SStr.of(o1), SStr.of(o2)
            e = a.eq_expr(b) if (a.has_atom() or b.has_atom() or len(a.cs) == len(b.cs)) else z3.BoolVal(False)
        m = ex_.model(z3.Not(e))
        if m is None:
            res["finals_unsat"] += 1
            return ("ok", o1, o2)
        return ("differ", o1, o2, m)
    paths = ex.explore(h)
    harness.add_stats(res, ex)
    seen = set()
    for p in paths:
        if p.model is None or p.exc is not None:
            continue
        if p.result[0] != "ok":
            tag = "no-salt:%s" % p.result[0]
            if tag in seen:
                continue
            seen.add(tag)
            res["violations"].append(dict(description="no-salt contract broken: %s" % p.result[0], witness=dict(lines=lines), tags=[tag],
                                          replay=dict(replayer="nosalt", args=dict(lines=lines, kw=kw))))
            res["status"] = "violated"
        else:
            res["validated"] += 1
            if len(res["samples"]) < 1:
                res["samples"].append(dict(lines=lines, note="output with generated salt equals output when re-run with the reported salt"))
    res["vacuity"] = "witnessed" if any(p.model is not None for p in paths) else "VACUOUS"
    if res["vacuity"] != "witnessed":
        raise core.EngineError("no feasible path")


HARNESSES = {"twice": twice, "earlier": earlier, "nosalt": nosalt}
