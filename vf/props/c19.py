"""C19 - Command-line contract: validation, precedence and option equivalences."""
import argparse
import itertools
import time
import z3

from .. import core, harness, models
from ..core import Explorer, SStr, SInt
from ..harness import Item, fam, plain, ev

INFO = dict(
    functions=["netconan.netconan.main (everything below _parse_args)", "netconan.netconan.host_bits", "the argument table of _parse_args (defaults read from the live parser)"],
    files=["netconan/netconan.py", "netconan/anonymize_files.py"],
    assumptions=["_parse_args is replaced by a stub returning a Namespace whose field domains are derived from the real parser's action table; anonymize_files is a recorder",
                 "the oracle for validation / mapping is written from the property statement and the README, not from main()",
                 "host_bits is executed on symbolic decimal strings (digits symbolic) and on concrete signed / non-numeric samples"],
    outside=["config-file parsing and command-line-over-config precedence are configargparse internals working on concrete files: not encodable here",
             "'missing input or output is rejected' is argparse's required=True, read from the action table, not executed",
             "what anonymize_files then writes (C16)"],
)
RFC1918 = ["10.0.0.0/8", "172.16.0.0/12", "192.168.0.0/16"]
CLASSES = ["0.0.0.0/1", "128.0.0.0/2", "192.0.0.0/3", "224.0.0.0/4"]


def bounds(tier):
    return dict(validation="all 2^9 combinations of undo / anonymize-ips / salt / dump-ip-map / anonymize-passwords / as-numbers / sensitive-words / input / output present-absent",
                mapping="all combinations of list-valued options (absent / one / several entries), --preserve-private-addresses and host bits in {0, 8, 32}",
                host_bits="all decimal strings of 1..3 digits, plus signed / non-numeric samples")


def items(tier, seed):
    out = [Item("C19", "validation", dict(), budget_s=600, obligation="H1-validation-before-anything-is-written"),
           Item("C19", "mapping", dict(), budget_s=600, obligation="H1-option-mapping-and-equivalences"),
           Item("C19", "defaults", dict(), budget_s=60, obligation="H2-documented-defaults")]
    for n in (1, 2, 3):
        out.append(Item("C19", "hostbits", dict(n=n), budget_s=120, obligation="H3-host-bits-range"))
    return out


class Recorder:
    def __init__(self):
        self.calls = []

    def __call__(self, *a, **k):
        self.calls.append((a, k))


PARAMS = ["input_path", "output_path", "anon_pwd", "anon_ip", "salt", "dumpfile", "sensitive_words", "undo_ip_anon", "as_numbers", "reserved_words",
          "preserve_prefixes", "preserve_networks", "preserve_suffix_v4", "preserve_suffix_v6"]


def normalise(call):
    a, k = call
    d = {}
    for i, v in enumerate(a):
        d[PARAMS[i]] = v
    d.update(k)
    return d


def default_ns():
    P = plain()
    ns = P.cli._parse_args(["-i", "in", "-o", "out"])
    return vars(ns)


def _run_main(F, fields):
    ns = argparse.Namespace(**fields)
    rec = Recorder()
    saved = (F.cli._parse_args, F.cli.anonymize_files)
    F.cli._parse_args = lambda argv: ns
    F.cli.anonymize_files = rec
    try:
        try:
            F.cli.main([])
            exc = None
        except Exception as e:
            exc = e
    finally:
        F.cli._parse_args, F.cli.anonymize_files = saved
    return rec, exc


def validation(item, res):
    F = fam()
    base = default_ns()
    ex = Explorer(deadline=time.time() + item.budget_s)
    names = ["undo", "anonymize_ips", "salt", "dump_ip_map", "anonymize_passwords", "as_numbers", "sensitive_words", "input", "output"]
    on = dict(undo=True, anonymize_ips=True, salt="s", dump_ip_map="map", anonymize_passwords=True, as_numbers="1,2", sensitive_words="a,b", input="in", output="out")
    off = dict(undo=False, anonymize_ips=False, salt=None, dump_ip_map=None, anonymize_passwords=False, as_numbers=None, sensitive_words=None, input="", output="")

    def h(ex_):
        f = dict(base)
        bits = {}
        for n in names:
            b = ex_.choice(2, n)
            bits[n] = b
            f[n] = on[n] if b else off[n]
        rec, exc = _run_main(F, f)
        # oracle from the statement
        must_reject = (not bits["input"]) or (not bits["output"]) or (bits["undo"] and bits["anonymize_ips"]) or (bits["undo"] and not bits["salt"]) or \
            (bits["dump_ip_map"] and not bits["anonymize_ips"])
        enabled = bits["as_numbers"] or bits["sensitive_words"] or bits["anonymize_passwords"] or bits["anonymize_ips"] or bits["undo"]
        res["finals"] += 1
        if must_reject:
            ok = exc is not None and not rec.calls
        elif not enabled:
            ok = exc is None and not rec.calls
        else:
            ok = exc is None and len(rec.calls) == 1
        if ok:
            res["finals_unsat"] += 1
            return ("ok", f)
        return ("contract", f, "rejected=%r calls=%d expected %s" % (type(exc).__name__ if exc else None, len(rec.calls),
                                                                    "rejection before anything is written" if must_reject else ("nothing written" if not enabled else "exactly one run")))
    paths = ex.explore(h)
    harness.add_stats(res, ex)
    _report(res, paths, "validation")


def _report(res, paths, what):
    from .. import replayers
    P = plain()
    seen = 0
    nval = 0
    for p in paths:
        if p.exc is not None:
            raise core.EngineError("harness raised: %r" % p.exc)
        if p.result[0] != "ok":
            if seen < 3:
                f = {k: v for k, v in p.result[1].items()}
                res["violations"].append(dict(description="command-line contract (%s): %s" % (what, p.result[2]), witness=dict(namespace=f), tags=["cli:" + what],
                                              replay=dict(replayer="cli_contract", args=dict(fields=f, what=what))))
                res["status"] = "violated"
            seen += 1
        elif nval < 40 and (p is paths[0] or nval < 40):
            rr = replayers.cli_contract(P, dict(fields=p.result[1], what=what))
            if rr["violated"]:
                raise core.EngineError("concolic mismatch: plain main() breaks the contract on %r: %s" % (p.result[1], rr["detail"]))
            nval += 1
            if len(res["samples"]) < 2:
                res["samples"].append(dict(namespace={k: v for k, v in p.result[1].items() if v not in (None, False)}, observed=rr["observed"]))
    res["validated"] += nval
    res["vacuity"] = "witnessed" if paths else "VACUOUS"


def mapping(item, res):
    F = fam()
    base = default_ns()
    ex = Explorer(deadline=time.time() + item.budget_s)
    dom = dict(as_numbers=[None, "65001", "1,22,333"], sensitive_words=[None, "lon", "lon,lax"], reserved_words=[None, "keep", "keep,me"],
               preserve_prefixes=[base["preserve_prefixes"], "12.0.0.0/8", "12.0.0.0/8,1.2.3.0/24"], preserve_addresses=[None, "9.9.9.9/32", "9.9.9.9/32,8.8.0.0/16"],
               preserve_private_addresses=[False, True], preserve_host_bits=[0, 8, 32], salt=["s", None], anonymize_passwords=[False, True])

    def h(ex_):
        f = dict(base)
        f.update(input="in", output="out", anonymize_ips=True, undo=False, dump_ip_map=None)
        for k, vals in dom.items():
            f[k] = vals[ex_.choice(len(vals), k)]
        rec, exc = _run_main(F, f)
        res["finals"] += 1
        if exc is not None or len(rec.calls) != 1:
            return ("contract", f, "a valid combination was rejected or not run exactly once (%r)" % (exc,))
        c = normalise(rec.calls[0])
        split = lambda v: None if v is None else v.split(",")
        nets = split(f["preserve_addresses"])
        if f["preserve_private_addresses"]:
            nets = (nets or []) + RFC1918
        want = dict(input_path="in", output_path="out", anon_pwd=f["anonymize_passwords"], anon_ip=True, salt=f["salt"], dumpfile=None, sensitive_words=split(f["sensitive_words"]),
                    undo_ip_anon=False, as_numbers=split(f["as_numbers"]), reserved_words=split(f["reserved_words"]), preserve_prefixes=split(f["preserve_prefixes"]),
                    preserve_suffix_v4=f["preserve_host_bits"], preserve_suffix_v6=f["preserve_host_bits"])
        diffs = [k for k in want if c.get(k) != want[k]]
        got_nets = c.get("preserve_networks")
        if (None if got_nets is None else sorted(got_nets)) != (None if nets is None else sorted(nets)):
            diffs.append("preserve_networks")
        if diffs:
            return ("contract", f, "library parameters differ from the documented mapping in %r (got %r)" % (diffs, {k: c.get(k) for k in diffs}))
        res["finals_unsat"] += 1
        return ("ok", f)
    paths = ex.explore(h)
    harness.add_stats(res, ex)
    _report(res, paths, "mapping")


def defaults(item, res):
    d = default_ns()
    res["finals"] += 2
    res["states"], res["transitions"] = 1, 1
    bad = []
    if d.get("preserve_host_bits") != 8:
        bad.append("default host bits %r != 8" % d.get("preserve_host_bits"))
    if sorted((d.get("preserve_prefixes") or "").split(",")) != sorted(CLASSES + RFC1918):
        bad.append("default preserved prefixes %r are not the class and private prefixes" % d.get("preserve_prefixes"))
    for b in bad:
        res["violations"].append(dict(description="documented default does not apply: %s" % b, witness=dict(defaults={k: d[k] for k in ("preserve_host_bits", "preserve_prefixes")}), tags=["cli:defaults"],
                                      replay=dict(replayer="cli_contract", args=dict(fields={}, what="defaults"))))
        res["status"] = "violated"
    res["finals_unsat"] += 2 - len(bad)
    res["validated"] += 1
    res["samples"].append(dict(defaults={k: d[k] for k in ("preserve_host_bits", "preserve_prefixes", "salt", "anonymize_ips")}))
    res["vacuity"] = "witnessed"


def hostbits(item, res):
    F = fam()
    n = item.params["n"]
    ex = Explorer(deadline=time.time() + item.budget_s)
    ds = [z3.BitVec("d%d" % i, 8) for i in range(n)]

    def h(ex_):
        for d in ds:
            ex_.assume(z3.And(z3.UGE(d, 48), z3.ULE(d, 57)))
        v = z3.BitVecVal(0, 16)
        for d in ds:
            v = v * 10 + z3.ZeroExt(8, d - 48)
        try:
            r = F.cli.host_bits(SStr(list(ds)))
            raised = False
        except Exception:
            r, raised = None, True
        res["finals"] += 1
        if raised:
            m = ex_.model(z3.ULE(v, 32))
        else:
            rv = r.ubv(16) if isinstance(r, SInt) else z3.BitVecVal(r, 16)
            m = ex_.model(z3.Or(z3.UGT(v, 32), rv != v))
        if m is None:
            res["finals_unsat"] += 1
            return ("ok",)
        return ("contract", "".join(chr(ev(m, d)) for d in ds))
    paths = ex.explore(h)
    harness.add_stats(res, ex)
    P = plain()
    for p in paths:
        if p.exc is not None:
            raise core.EngineError("harness raised %r" % p.exc)
        if p.result[0] != "ok":
            res["violations"].append(dict(description="host_bits accepts a value outside 0..32 or rejects / alters one inside", witness=dict(text=p.result[1]), tags=["cli:host-bits"],
                                          replay=dict(replayer="cli_contract", args=dict(fields=dict(text=p.result[1]), what="hostbits"))))
            res["status"] = "violated"
        elif p.model is not None:
            t = "".join(chr(ev(p.model, d)) for d in ds)
            from .. import replayers
            if replayers.cli_contract(P, dict(fields=dict(text=t), what="hostbits"))["violated"]:
                raise core.EngineError("concolic mismatch for host_bits(%r)" % t)
            res["validated"] += 1
    # concrete signed / non-numeric samples through the same oracle
    from .. import replayers
    for t in ("-1", "+5", "33", "032", " 8", "8 ", "x", "", "3.0"):
        res["finals"] += 1
        if replayers.cli_contract(P, dict(fields=dict(text=t), what="hostbits"))["violated"]:
            res["violations"].append(dict(description="host_bits mishandles %r" % t, witness=dict(text=t), tags=["cli:host-bits"],
                                          replay=dict(replayer="cli_contract", args=dict(fields=dict(text=t), what="hostbits"))))
            res["status"] = "violated"
        else:
            res["finals_unsat"] += 1
    res["samples"].append(dict(digits=n, paths=len(paths)))
    res["vacuity"] = "witnessed" if paths else "VACUOUS"


HARNESSES = {"validation": validation, "mapping": mapping, "defaults": defaults, "hostbits": hostbits}
