"""C06 - Address substitution in text is complete and exact."""
import ipaddress
import time
import z3
import re._constants as K

from .. import core, harness, models, rx2z3
from ..core import Explorer, SStr, SInt, Atom
from ..harness import Item, fam, plain, ev
from . import ipcommon as ipc

USES_REGEX = True
INFO = dict(
    functions=["anonymize_ip_addr", "_anonymize_match", "IpAnonymizer.make_addr (_DROP_ZEROS_PATTERN) / IpV6Anonymizer.make_addr", "the live IPv4_PATTERN / IPv6_PATTERN objects",
               "instrumented stdlib ipaddress.IPv4Address(str) / IPv6Address(str)"],
    files=["netconan/ip_anonymization.py", "netconan/anonymize_files.py"],
    assumptions=["D1 (unbounded length): the body group of each pattern is translated to a z3 regular expression (rx2z3) and compared with a reference grammar written from the "
                 "property statement / RFC 4291; the look-behind / look-ahead sets are read from the pattern and compared with the token alphabet, so that every match is a whole "
                 "maximal token (token-exactness lemma) and priority semantics cannot matter",
                 "D2 (bounded, priority-exact): the real anonymize_ip_addr runs on ctx + token + ctx with symbolic digits / context characters; the expected value of a token is the "
                 "arithmetic value of its digits, independent of make_addr", "md5 is an uninterpreted function; the image is an opaque canonical rendering"],
    outside=["characters above U+00FF", "lines longer than the D2 shapes (D1 covers any length for the hex-only and dotted-quad bodies)",
             "the scoped alternative fe80:...%zone and IPv4-embedded IPv6 spellings are checked in D2 only"],
)
T4 = frozenset(ord(c) for c in "abcdefghijklmnopqrstuvwxyzABCDEFGHIJKLMNOPQRSTUVWXYZ0123456789.")
T6 = frozenset(ord(c) for c in "abcdefghijklmnopqrstuvwxyzABCDEFGHIJKLMNOPQRSTUVWXYZ0123456789:")

V4_SHAPES = ["D.2.3.4", "DD.2.3.4", "DDD.2.3.4", "1.2.3.DDD", "1.DD.3.4", "0DD.2.3.4", "00D.2.3.004", "1.2.3.4/DD", "1.2.D", "1.2.3.4.D", "1.2.3.D.", "D.D.D.D", "1.2.3.DDDD", "2DD.2DD.1.1"]
V6_SHAPES = ["H::H", "HH:H::HHHH", "::H", "H::", "1:2:3::4:5:6:HHHH", "1:2:3:4:5:6:7:HHHH", "HHHH:2:3:4:5:6:7:8", "1:2:3:4:5:6:7::", "::2:3:4:5:6:7:H", "1::HHHHH", "1:2:3:4:5:6:7:8:H",
             "1::2::H", "aa:bb:cc:dd:ee:HH", "H:", "1:2::H/DD", "::ffff:1.2.3.D", "1::1.2.3.D", "fe80::H%eth0"]


def bounds(tier):
    return dict(D1="IPv4 body and the nine hex-only IPv6 alternatives: language equivalence with the reference grammars for strings of any length; token-exactness premises",
                D2_v4=V4_SHAPES, D2_v6=V6_SHAPES, context="0..1 arbitrary Latin-1 characters on each side (delimiters or letters g-z; hex digits / dots / colons would form another token)",
                note="D = symbolic decimal digit, H = symbolic hex digit (either case)")


def items(tier, seed):
    out = [Item("C06", "language", dict(family=4), budget_s=300, obligation="D1-language-v4"), Item("C06", "language", dict(family=6), budget_s=600, obligation="D1-language-v6")]
    for si in range(len(V4_SHAPES)):
        for ctx in ((0, 0), (1, 0), (0, 1), (1, 1)):
            out.append(Item("C06", "token", dict(family=4, shape=si, ctx=list(ctx)), budget_s=600, obligation="D2-token-v4"))
    for si in range(len(V6_SHAPES)):
        for ctx in ((0, 0), (1, 1)) if tier == "quick" else ((0, 0), (1, 0), (0, 1), (1, 1)):
            out.append(Item("C06", "token", dict(family=6, shape=si, ctx=list(ctx)), budget_s=900, obligation="D2-token-v6"))
    return out


# ----------------------------------------------------------------------------------------------- D1
def _lookaround_sets(tree, flags):
    """(set of characters allowed before a match, allows-start, set allowed after, allows-end) read from the pattern's edges"""
    from .. import symre
    nodes = list(tree)
    first, last = nodes[0], nodes[-1]

    def alts(node):
        op, av = node
        if op is K.BRANCH:
            return [list(a) for a in av[1]]
        if op is K.SUBPATTERN:
            inner = list(av[3])
            if len(inner) == 1 and inner[0][0] is K.BRANCH:
                return [list(a) for a in inner[0][1][1]]
            return [inner]
        return [[node]]
    before, start_ok = set(), False
    for a in alts(first):
        if len(a) != 1 or a[0][0] is not K.ASSERT or a[0][1][0] != -1:
            raise core.EngineError("unexpected look-behind structure")
        sub = list(a[0][1][1])
        if len(sub) == 1 and sub[0][0] is K.AT:
            start_ok = True
        elif len(sub) == 1 and sub[0][0] in (K.IN, K.NOT_LITERAL, K.LITERAL, K.ANY):
            before |= set(symre.atom_set(sub[0], flags))
        else:
            raise core.EngineError("unexpected look-behind content")
    if last[0] is not K.ASSERT or last[1][0] != 1:
        raise core.EngineError("unexpected look-ahead structure")
    after, end_ok = set(), False
    sub = list(last[1][1])
    branches = alts(sub[0]) if len(sub) == 1 else [sub]
    for a in branches:
        if len(a) == 1 and a[0][0] is K.AT:
            end_ok = True
        elif len(a) == 1 and a[0][0] in (K.IN, K.NOT_LITERAL, K.LITERAL, K.ANY):
            after |= set(symre.atom_set(a[0], flags))
        else:
            raise core.EngineError("unexpected look-ahead content")
    return before, start_ok, after, end_ok


def language(item, res):
    """D1: body language == reference grammar (any length) + token-exactness premises."""
    family = item.params["family"]
    P = plain()
    pat = P.ip.IPv4_PATTERN if family == 4 else P.ip.IPv6_PATTERN
    tree, flags = rx2z3.parse(pat)
    nodes = list(tree)
    T = T4 if family == 4 else T6
    before, start_ok, after, end_ok = _lookaround_sets(tree, flags)
    dom = set(range(256))
    problems = []
    res["finals"] += 2
    if not start_ok or not end_ok or before != dom - T or after != dom - T:
        problems.append(("delimiters", "the pattern's look-around accepts delimiters %r / %r, the property's token alphabet gives %r" % (
            sorted(chr(c) for c in (before ^ (dom - T)) if c < 127)[:12], sorted(chr(c) for c in (after ^ (dom - T)) if c < 127)[:12], "everything outside letters, digits and '%s'" % (".:"[family == 6]))))
    else:
        res["finals_unsat"] += 2
    body = [n for n in nodes if n[0] is K.SUBPATTERN and n[1][0] == 1]
    if not body:
        raise core.EngineError("no capture group 1 in the pattern")
    inner = list(body[0][1][3])
    D = rx2z3.cls(range(48, 58))
    if family == 4:
        body_re = rx2z3.tr(inner, flags)
        octet = z3.Union(z3.Concat(z3.Re("25"), z3.Range("0", "5")), z3.Concat(z3.Re("2"), z3.Range("0", "4"), D), z3.Concat(z3.Re("1"), D, D), z3.Concat(z3.Range("1", "9"), D), D)
        zo = z3.Concat(z3.Star(z3.Re("0")), octet)
        spec = z3.Concat(zo, z3.Re("."), zo, z3.Re("."), zo, z3.Re("."), zo)
        label = "dotted quad with optional leading zeros"
    else:
        if len(inner) != 1 or inner[0][0] is not K.BRANCH:
            raise core.EngineError("IPv6 body is not an alternation")
        alts = [list(a) for a in inner[0][1][1]]
        hexonly = []
        for a in alts:
            lits = _literals(a)
            if "." in lits or "%" in lits:
                continue
            hexonly.append(rx2z3.tr(a, flags))
        body_re = z3.Union(*hexonly)
        H = rx2z3.cls([ord(c) for c in "0123456789abcdefABCDEF"])
        h = z3.Loop(H, 1, 4)

        def groups(n):
            if n == 0:
                return z3.Re("")
            return z3.Concat(h, z3.Loop(z3.Concat(z3.Re(":"), h), n - 1, n - 1)) if n > 1 else h
        parts = [groups(8)]
        for i in range(0, 8):
            for j in range(0, 8 - i):
                parts.append(z3.Concat(groups(i), z3.Re("::"), groups(j)))
        spec = z3.Union(*parts)
        label = "RFC 4291 hex forms (1-4 hex digits per group, either case, at most one '::')"
    for name, a, b in (("pattern-accepts-more", body_re, spec), ("pattern-misses", spec, body_re)):
        res["finals"] += 1
        res["queries"] += 1
        t = time.time()
        w = rx2z3.witness_not_included(a, b, 120000)
        res["solver_s"] = round(res["solver_s"] + time.time() - t, 3)
        if w is None:
            res["finals_unsat"] += 1
            res["unsat"] += 1
        else:
            res["sat"] += 1
            problems.append((name, w))
    # token alphabet: every body string consists of token characters only
    res["finals"] += 1
    w = rx2z3.witness_not_included(body_re, z3.Plus(rx2z3.cls(T)), 60000)
    if w is None:
        res["finals_unsat"] += 1
    else:
        problems.append(("not-a-token", w))
    res["states"], res["transitions"] = 1, 1
    res["samples"].append(dict(family=family, reference=label, delimiters_ok=not any(p[0] == "delimiters" for p in problems)))
    from .. import replayers
    for name, w in problems:
        args = dict(family=family, kind=name, text=w if isinstance(w, str) else None)
        rr = replayers.ip_token(P, args) if isinstance(w, str) and name != "delimiters" else dict(violated=True, detail=str(w))
        res["violations"].append(dict(description="address pattern vs reference grammar: %s (%s)" % (name, rr.get("detail")), witness=dict(text=w), tags=["language:%s:v%d" % (name, family)],
                                      replay=dict(replayer="ip_token", args=args), confirmed=None if isinstance(w, str) and name != "delimiters" else True))
        res["status"] = "violated"
    res["validated"] += 1
    res["vacuity"] = "witnessed"


def _literals(nodes):
    out = set()
    for op, av in nodes:
        if op is K.LITERAL:
            out.add(chr(av))
        elif op is K.SUBPATTERN:
            out |= _literals(list(av[3]))
        elif op is K.BRANCH:
            for a in av[1]:
                out |= _literals(list(a))
        elif op in (K.MAX_REPEAT, K.MIN_REPEAT):
            out |= _literals(list(av[2]))
        elif op in (K.ASSERT, K.ASSERT_NOT):
            out |= _literals(list(av[1]))
    return out


# ----------------------------------------------------------------------------------------------- D2
HEXSET = frozenset(ord(c) for c in "0123456789abcdefABCDEF")
DELIMS4 = frozenset(range(256)) - T4 - {10, 13}
DELIMS6 = frozenset(range(256)) - T6 - {10, 13}
GLUE = frozenset(ord(c) for c in "ghijklmnopqrstuvwxyzGHIJKLMNOPQRSTUVWXYZ")


def token(item, res):
    F = fam()
    family = item.params["family"]
    shape = (V4_SHAPES if family == 4 else V6_SHAPES)[item.params["shape"]]
    nl, nr = item.params["ctx"]
    W = ipc.width(family)
    cfg = dict(prefixes=[], networks=None, B=0)
    ex = Explorer(deadline=time.time() + item.budget_s)
    delims = DELIMS4 if family == 4 else DELIMS6
    tok, vs = [], []
    for ch in shape:
        if ch in "DH":
            v = z3.BitVec("t%d" % len(vs), 8)
            vs.append((v, ch))
            tok.append(v)
        else:
            tok.append(ord(ch))
    L = [z3.BitVec("cl%d" % i, 8) for i in range(nl)]
    R = [z3.BitVec("cr%d" % i, 8) for i in range(nr)]
    line = [ord("x"), 32] + L + tok + R + [32, ord("y"), 10]
    P = plain()

    def h(ex_):
        for v, ch in vs:
            ex_.assume(core.in_set_expr(v, frozenset(range(48, 58)) if ch == "D" else HEXSET))
            core.register_char_set(v, frozenset(range(48, 58)) if ch == "D" else HEXSET, scoped=True)
        glued = False
        for c in L + R:
            ex_.assume(core.in_set_expr(c, delims | GLUE))
            if core.char_in(c, GLUE):
                glued = True
        an = ipc.make(cfg, family)
        out = F.ip.anonymize_ip_addr(an, SStr.mk(list(line)), False)
        oc = list(SStr.of(out).cs)
        natoms = sum(1 for c in oc if isinstance(c, Atom))
        ex_.path_data["glued"] = glued
        return ("done", oc, natoms, glued)
    paths = ex.explore(h)
    harness.add_stats(res, ex)
    from .. import replayers
    seen = set()
    nval = 0
    for p in paths:
        if p.model is None:
            continue
        text = "".join(chr(c) if isinstance(c, int) else chr(ev(p.model, c)) for c in line)
        res["finals"] += 1
        if p.exc is not None:
            tag = "raises:%s" % type(p.exc).__name__
            rr = dict(detail=repr(p.exc))
            bad = True
        else:
            _, oc, natoms, glued = p.result
            # independent expectation for this concrete instance (the path's model); the path condition fixes every class decision
            rr = _plain_token(p.model, family, text)
            bad = rr["violated"]
            tag = "token:v%d:%s" % (family, rr.get("kind"))
            want_out = ev(p.model, SStr(oc))
            if rr["observed"] != want_out:
                raise core.EngineError("concolic mismatch on %r: %r vs %r" % (text, rr["observed"], want_out))
            nval += 1
        if not bad:
            res["finals_unsat"] += 1
            if len(res["samples"]) < 2 and rr.get("kind") == "replaced":
                res["samples"].append(dict(line=text, output=rr["observed"]))
            continue
        if tag in seen:
            continue
        seen.add(tag)
        res["violations"].append(dict(description="address token handling: %s" % rr["detail"], witness=dict(line=text, output=rr.get("observed")), tags=[tag, "shape:" + shape],
                                      replay=dict(replayer="ip_token", args=dict(family=family, kind="line", text=text, md5_table=rr.get("table")))))
        res["status"] = "violated"
    res["validated"] += nval
    res["vacuity"] = "witnessed" if any(p.model is not None for p in paths) else "VACUOUS"
    if res["vacuity"] != "witnessed":
        raise core.EngineError("no feasible path")


def _plain_token(model, family, text):
    from .. import replayers
    P = plain()
    table = {}
    dbl = models.model_md5(model, table)
    with replayers.patched_md5(P, dbl):
        r = replayers.ip_token(P, dict(family=family, kind="line", text=text))
    r["table"] = table
    return r


HARNESSES = {"language": language, "token": token}
