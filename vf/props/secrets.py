"""Shared machinery for the secret-anonymization properties (C07, C08, C09, C12-C15): secret alphabets, independent
format-class predicates, symbolic runs of replace_matching_item / _anonymize_value on the real code."""
import time
import z3

from .. import core, harness, models, forms
from ..core import Explorer, SStr, SInt, Atom
from ..harness import fam, plain, ev

# secret characters per the property's quantifier: printable non-space ASCII without quote / terminator characters
EXCLUDED = set(ord(c) for c in "\"'[]{};,\\")
SECRET_ALPHABET = frozenset(c for c in range(33, 127) if c not in EXCLUDED)
DIG = frozenset(range(48, 58))
HEX = frozenset(ord(c) for c in "0123456789abcdefABCDEF")
J9 = frozenset(ord(c) for c in "QzF3n6/9CAtpu0O" "B1IREhcSyrleKvMW8LXx" "7N-dVbwsY2g4oaJZGUDj" "iHkq.mPf5T")
NONSPACE = frozenset(c for c in range(256) if not chr(c).isspace())

_REGEXES = {}


def regexes():
    F = fam()
    if "r" not in _REGEXES:
        saved, core.EX = core.EX, None
        try:
            _REGEXES["r"] = F.sir.generate_default_sensitive_item_regexes()
        finally:
            core.EX = saved
    return _REGEXES["r"]


def reserved():
    return fam().words.default_reserved_words


def secret_vars(n, tag="s"):
    return [z3.BitVec("%s%d" % (tag, i), 8) for i in range(n)]


def in_alphabet(ex, cs, alphabet=SECRET_ALPHABET):
    for c in cs:
        ex.assume(core.in_set_expr(c, alphabet))
        core.register_char_set(c, alphabet, scoped=True)


def not_reserved(ex, cs):
    """assume the (whole) secret is not a reserved word (those are kept by design)"""
    words = [w for w in plain().words.default_reserved_words if len(w) == len(cs) and all(ord(ch) < 256 for ch in w)]
    s = SStr(list(cs))
    for w in words:
        e = s.eq_expr(w)
        if not z3.is_false(e):
            ex.assume(z3.Not(e))


# ----------------------------------------------------------------------------- independent format-class predicates
def all_in(cs, st):
    return z3.And(*[core.in_set_expr(c, st) if not isinstance(c, int) else z3.BoolVal(c in st) for c in cs]) if cs else z3.BoolVal(False)


def lit(cs, i, text):
    if i + len(text) > len(cs):
        return z3.BoolVal(False)
    return z3.And(*[(cs[i + k] == ord(ch)) if not isinstance(cs[i + k], int) else z3.BoolVal(cs[i + k] == ord(ch)) for k, ch in enumerate(text)])


def cell_predicates(cs):
    """Independent format predicates over a secret given as a list of chars (int | BV8).  Two secrets with the same truth
    values for all of them are 'of the same format class' in the sense of the property (finest partition: numeric, type-7
    shaped, hex, $1$ with a given salt length, $6$, $9$ well-formed / malformed, other text)."""
    n = len(cs)
    preds = {}
    preds["numeric"] = all_in(cs, DIG)
    preds["hex"] = all_in(cs, HEX)
    if n >= 4 and n % 2 == 0:
        preds["type7"] = z3.And(core.in_set_expr(cs[0], {48, 49}) if not isinstance(cs[0], int) else z3.BoolVal(cs[0] in (48, 49)),
                                all_in(cs[1:2], DIG), all_in(cs[2:], HEX))
    else:
        preds["type7"] = z3.BoolVal(False)
    # $1$<salt>$<hash>: salt length = position of the first '$' after the prefix
    for sl in range(1, max(1, n - 4)):
        body = cs[3:]
        if 3 + sl + 1 < n:
            no_dollar = z3.And(*[(c != 36) if not isinstance(c, int) else z3.BoolVal(c != 36) for c in cs[3:3 + sl]])
            preds["md5_salt%d" % sl] = z3.And(lit(cs, 0, "$1$"), no_dollar, lit(cs, 3 + sl, "$"), z3.BoolVal(n > 3 + sl + 1))
    preds["sha512"] = z3.And(lit(cs, 0, "$6$"), z3.BoolVal(n > 3))
    preds["j9"] = z3.And(lit(cs, 0, "$9$"), z3.BoolVal(n > 3))
    preds["j9_wellformed"] = z3.And(lit(cs, 0, "$9$"), z3.BoolVal(n >= 7), all_in(cs[3:], J9))
    return preds


def same_cell(cs1, cs2):
    p1, p2 = cell_predicates(cs1), cell_predicates(cs2)
    return z3.And(*[p1[k] == p2[k] for k in p1])


def rename(expr, cs, tag):
    """copy of expr over fresh secret variables"""
    new = [z3.BitVec("%s_%s" % (str(c), tag), 8) for c in cs]
    return z3.substitute(expr, *[(c, d) for c, d in zip(cs, new)]), new


def symbols_of(x):
    """names of z3 constants occurring in an SStr / str result"""
    if isinstance(x, str) or x is None:
        return set()
    out = set()
    seen = set()
    stack = list(SStr.of(x).symbols()) if isinstance(x, SStr) else []
    while stack:
        e = stack.pop()
        if e.get_id() in seen:
            continue
        seen.add(e.get_id())
        if z3.is_const(e) and e.decl().kind() == z3.Z3_OP_UNINTERPRETED:
            out.add(str(e))
        else:
            stack.extend(e.children())
    return out


def result_key(r):
    """hashable description of a path's result for grouping (concrete text, or structure with environment symbols)"""
    if isinstance(r, str):
        return ("str", r)
    if isinstance(r, SStr):
        return ("sym", tuple(c if isinstance(c, int) else ("A", c.kind, c.e.get_id()) if isinstance(c, Atom) else ("v", c.get_id()) for c in r.cs))
    return ("other", repr(r))


class Run:
    """paths of one symbolic run: list of (pc, result, exc, model, logs)"""

    def __init__(self, fn, budget_s, res, assume=None):
        self.ex = Explorer(deadline=time.time() + budget_s)

        def h(ex_):
            if assume:
                assume(ex_)
            r = fn(ex_)
            ex_.path_data["log"] = list(models.ENV.log)
            return r
        self.paths = self.ex.explore(h)
        harness.add_stats(res, self.ex)


def independence(res, run, secret_cs, describe, max_pair_queries=400, full=None):
    """Core of C07: (a) no result may mention a secret symbol, (b) two secrets of the same format cell may not lead to
    different results.  Returns list of violation dicts (witness models included)."""
    viol = []
    names = {str(c) for c in secret_cs}
    groups = {}
    for p in run.paths:
        if p.exc is not None:
            continue
        groups.setdefault(result_key(p.result), []).append(p)
        dep = symbols_of(p.result) & names
        if dep:
            # second witness: another secret of the same class on the same path whose output differs
            pc = z3.And(*p.pc) if p.pc else z3.BoolVal(True)
            pc2, cs2 = rename(pc, secret_cs, "b")
            full1 = list(full) if full is not None else list(secret_cs)
            mp = {str(c): d for c, d in zip(secret_cs, cs2)}
            full2 = [c if isinstance(c, int) else mp[str(c)] for c in full1]
            r1 = SStr.of(p.result)
            r2 = SStr([c if isinstance(c, int) or isinstance(c, Atom) else z3.substitute(c, *[(a, b) for a, b in zip(secret_cs, cs2)]) for c in r1.cs])
            sv = z3.Solver()
            sv.set("timeout", 30000)
            sv.add(pc, pc2, same_cell(full1, full2), z3.Not(r1.eq_expr(r2)))
            res["queries"] += 1
            res["finals"] += 1
            if sv.check() == z3.sat:
                m = sv.model()
                viol.append(dict(kind="survives", path=p, model=m, other=[m.eval(c, model_completion=True).as_long() for c in cs2],
                                 detail="output contains secret characters %s" % sorted(dep)))
            else:
                res["finals_unsat"] += 1
    keys = list(groups)
    s = z3.Solver()
    s.set("timeout", 30000)
    nq = 0
    for i in range(len(keys)):
        for j in range(i + 1, len(keys)):
            if nq >= max_pair_queries:
                raise core.Inconclusive("too many result groups to compare (%d)" % len(keys))
            pc1 = z3.Or(*[z3.And(*p.pc) if p.pc else z3.BoolVal(True) for p in groups[keys[i]]])
            pc2 = z3.Or(*[z3.And(*p.pc) if p.pc else z3.BoolVal(True) for p in groups[keys[j]]])
            pc2r, cs2 = rename(pc2, secret_cs, "b")
            full1 = list(full) if full is not None else list(secret_cs)
            mp = {str(c): d for c, d in zip(secret_cs, cs2)}
            full2 = [c if isinstance(c, int) else mp[str(c)] for c in full1]
            s.push()
            s.add(pc1, pc2r, same_cell(full1, full2))
            t = time.time()
            r = s.check()
            res["solver_s"] = round(res["solver_s"] + time.time() - t, 3)
            res["queries"] += 1
            res["finals"] += 1
            nq += 1
            if r == z3.sat:
                res["sat"] += 1
                m = s.model()
                viol.append(dict(kind="class-dependent", model=m, other=[m.eval(c, model_completion=True).as_long() for c in cs2],
                                 results=(keys[i], keys[j]), detail="two secrets of the same format class give different output"))
            elif r == z3.unsat:
                res["unsat"] += 1
                res["finals_unsat"] += 1
            else:
                res["unknown"] += 1
                s.pop()
                raise core.Inconclusive("class comparison query unknown")
            s.pop()
    return viol, groups
