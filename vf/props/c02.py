"""C02 - IP anonymization is exactly reversible with the same salt and options."""
import time
import z3

from .. import core, harness
from ..core import Explorer, SInt, SStr, Atom
from ..harness import Item, fam, plain, ev
from . import ipcommon as ipc
from .ipcommon import mask_spec, in_networks_spec, inject, token, tok_value, mask_lemma

INFO = dict(
    functions=["_BaseIpAnonymizer.anonymize", "_BaseIpAnonymizer.deanonymize", "_anonymize_bits", "_deanonymize_bits",
               "_generate_bit_from_hash", "IpAnonymizer.__init__", "_anonymize_match", "IpAnonymizer.should_anonymize",
               "IpAnonymizer._is_mask", "stdlib ipaddress (IPv4Address(int), network membership)"],
    files=["netconan/ip_anonymization.py"],
    assumptions=[
        "md5 is an uninterpreted function shared by the anonymizing and the undoing instance (same salt)",
        "match-level harness injects an already-parsed symbolic address in place of make_addr (text parsing is C06's subject)",
        "canonical text of an address is an opaque injective rendering (ipaddress.__str__ trusted)",
    ],
    outside=["file-level undo beyond the stated address families / one address per line (further covered by C06 token-exactness and C15 composition)", "configuration lists outside the stated family",
             "warm-up histories longer than the stated depth"],
)


def bounds(tier):
    return dict(addresses="all addresses of both families", hash="all functions text -> digest",
                v4_configs=[ipc.cfg_key(c) for c in ipc.configs_v4(tier)], v6_host_bits=[c["B"] for c in ipc.configs_v6(tier)],
                warm_depth="k=1 arbitrary request (either direction, arbitrary address: exhaustive split on its common-prefix length with the later query) before the inverse; configs: " + repr([ipc.cfg_key(c) for c in _warm_cfgs(tier)]) + (" ; k=2 (direction patterns aa, au, uu) for prefix list none, B=8" if tier == "thorough" else ""),
                match_level="one symbolic token through _anonymize_match forward then undo",
                file_level="FileAnonymizer.anonymize_io forward, then undo by a fresh FileAnonymizer, on one line 'ip <address> x' for the address families %r (symbolic fields, all text shapes)" % (
                    [f["name"] for f in (FILE_FAMILIES[:2] if tier == "quick" else FILE_FAMILIES)],))


def _warm_cfgs(tier):
    if tier == "quick":
        return [dict(prefixes=[], networks=None, B=0), dict(prefixes=[], networks=None, B=8), dict(prefixes=list(ipc.CLASSES), networks=None, B=8)]
    return [dict(prefixes=pf, networks=n, B=b) for pf in ([], list(ipc.CLASSES), None) for n in (None, list(ipc.RFC1918)) for b in (0, 8, 24)]


def items(tier, seed):
    out = []
    for cfg in ipc.configs_v4(tier):
        out.append(Item("C02", "cold_inverse", dict(family=4, cfg=cfg), budget_s=300, obligation="H1-cold-inverse-v4"))
        out.append(Item("C02", "match_level", dict(family=4, cfg=cfg), budget_s=300, obligation="H3-match-level-v4"))
    for cfg in ipc.configs_v6(tier):
        out.append(Item("C02", "cold_inverse", dict(family=6, cfg=cfg), budget_s=600, obligation="H1-cold-inverse-v6"))
    out.append(Item("C02", "match_level", dict(family=6, cfg=dict(prefixes=None, networks=None, B=8)), budget_s=600, obligation="H3-match-level-v6"))
    for fi in (range(2) if tier == "quick" else range(len(FILE_FAMILIES))):
        out += _file_items(fi, tier)
    for cfg in _warm_cfgs(tier):
        for d in (0, 1):
            for lo, hi in ipc.shards(33, 3):
                out.append(Item("C02", "warm_inverse", dict(family=4, cfg=cfg, k=1, dirs=[d], ms=[lo, hi]), budget_s=500 if tier == "quick" else 2400, obligation="H2-warm-inverse-v4"))
    if tier == "thorough":
        for d1 in (0, 1):
            for d2 in (0, 1):
                if (d1, d2) == (1, 0):
                    continue     # undo-then-anonymize warm-up at depth 2: z3 gives no answer within the per-query budget (measured); depth 1 and C03 cover it
                for lo, hi in ipc.shards(33, 4):
                    out.append(Item("C02", "warm_inverse", dict(family=4, cfg=dict(prefixes=[], networks=None, B=8), k=2, dirs=[d1, d2], ms=[lo, hi]), budget_s=3000, obligation="H2-warm-inverse-v4"))
        for d in (0, 1):
            for lo, hi in ipc.shards(129, 8):
                out.append(Item("C02", "warm_inverse", dict(family=6, cfg=dict(prefixes=None, networks=None, B=8), k=1, dirs=[d], ms=[lo, hi]), budget_s=3000, obligation="H2-warm-inverse-v6"))
    return out


def _roundtrip_violation(res, cfg, family, model, first_kind, xvar, shared_desc, tags):
    x = ev(model, xvar)
    k2 = "d" if first_kind == "a" else "a"
    # realise: fresh instance does first_kind(x) -> y ; another fresh instance does k2(y)
    table, rr = ipc.md5_table_for(model, cfg, family, [[first_kind, x]])
    y = rr["fresh"][0]
    reqs = [[first_kind, x]] + ([[k2, y]] if isinstance(y, int) else [])
    table, rr = ipc.md5_table_for(model, cfg, family, reqs)
    res["violations"].append(dict(description="%s: %s then %s on fresh instances does not return the input" % (shared_desc, first_kind, k2),
                                  witness=dict(x=x, cfg=ipc.cfg_key(cfg), family=family, fresh_results=rr["fresh"]), tags=tags,
                                  replay=dict(replayer="ip_roundtrip", args=dict(family=family, cfg=cfg, x=x, first=first_kind, md5_table=table))))
    res["status"] = "violated"


def cold_inverse(item, res):
    """H1: Y.deanonymize(X.anonymize(a)) == a and X.anonymize(Y.deanonymize(c)) == c for fresh X, Y (joint exploration)."""
    cfg, family = item.params["cfg"], item.params["family"]
    W = ipc.width(family)
    v, sv = ipc.sym_addr("a", W)
    for first in ("a", "d"):
        ex = Explorer(deadline=time.time() + item.budget_s / 2)
        found = []

        def h(ex_):
            X, Y = ipc.make(cfg, family), ipc.make(cfg, family)
            mid = X.anonymize(sv) if first == "a" else X.deanonymize(sv)
            back = Y.deanonymize(mid) if first == "a" else Y.anonymize(mid)
            res["finals"] += 1
            m = ex_.model(ipc.out_bv(back, W) != v)
            if m is None:
                res["finals_unsat"] += 1
                return ("ok", ipc.out_bv(mid, W), ipc.out_bv(back, W))
            found.append(m)
            return ("cex",)
        paths = ex.explore(h)
        harness.add_stats(res, ex)
        for p in paths:
            if p.exc is not None and p.model is not None:
                found.append(p.model)
        nval = 0
        for p in paths[:40]:
            if p.model is None or p.exc is not None or p.result[0] != "ok":
                continue
            x = ev(p.model, v)
            from .. import replayers

            def run(P):
                return replayers.ip_roundtrip(P, dict(family=family, cfg=cfg, x=x, first=first))
            rr, _ = ipc.md5_replay_table(p.model, run)
            want = [ev(p.model, p.result[1]), ev(p.model, p.result[2])]
            if rr["observed"] != want:
                raise core.EngineError("concolic mismatch in cold inverse: x=%d symbolic=%r concrete=%r" % (x, want, rr["observed"]))
            nval += 1
            if len(res["samples"]) < 2:
                res["samples"].append(dict(config=ipc.cfg_key(cfg), family=family, first=first, x=x, mid=want[0], back=want[1]))
        res["validated"] += nval
        for m in found[:2]:
            _roundtrip_violation(res, cfg, family, m, first, v, "cold inverse", ["cold-inverse"])
        if not any(p.model is not None for p in paths):
            raise core.EngineError("no feasible path")
    res["vacuity"] = "witnessed"


def warm_inverse(item, res):
    """H2: the undoing instance first serves k symbolic requests of symbolic direction, then must still invert."""
    cfg, family, k = item.params["cfg"], item.params["family"], item.params["k"]
    W = ipc.width(family)
    a, sa = ipc.sym_addr("a", W)
    ex = Explorer(deadline=time.time() + item.budget_s)
    found = []

    def h(ex_):
        X, Y = ipc.make(cfg, family), ipc.make(cfg, family)
        image = X.anonymize(sa)
        image_bv = ipc.out_bv(image, W)
        dirs, xs = [], []
        for i in range(k):
            dsel = item.params.get("dirs")
            d = dsel[i] if dsel else ex_.choice(2, "direction")
            # the warm-up address is arbitrary: exhaustive case split on the number of leading bits it shares with the
            # value the later inverse will be compared against (a for an anonymize request, the image for an undo)
            lo_, hi_ = item.params.get("ms", [0, W + 1]) if i == 0 else (0, W + 1)
            mm = lo_ + ex_.choice(hi_ - lo_, "shared-prefix")
            x = ipc.related(a if d == 0 else image_bv, mm, "x%d_free" % i, W)
            dirs.append("ad"[d])
            xs.append(x)
            ex_.path_data["reqs"] = (list(dirs), list(xs))
            (Y.anonymize if d == 0 else Y.deanonymize)(SInt.unsigned(x) if not z3.is_bv_value(x) else x.as_long())
        r = Y.deanonymize(image)
        res["finals"] += 1
        m = ex_.model(ipc.out_bv(r, W) != a)
        if m is None:
            res["finals_unsat"] += 1
            return ("ok", dirs, xs)
        found.append((m, dirs, xs))
        return ("cex", dirs, xs)
    paths = ex.explore(h)
    harness.add_stats(res, ex)
    for p in paths:
        if p.exc is not None and p.model is not None:
            dirs_, xs_ = p.extra.get("reqs", ([], []))
            found.append((p.model, dirs_, xs_))
    nval = 0
    for p in paths[::max(1, len(paths) // 30)]:
        if p.model is None or p.exc is not None:
            continue
        av = ev(p.model, a)
        reqs = [[d, ev(p.model, p.result[2][i])] for i, d in enumerate(p.result[1])]
        from .. import replayers

        def run(P):
            return replayers.ip_warm_inverse(P, dict(family=family, cfg=cfg, a=av, warmup=reqs))
        rr, _ = ipc.md5_replay_table(p.model, run)
        if rr["violated"]:
            raise core.EngineError("concolic mismatch in warm inverse: a=%d got=%r" % (av, rr["observed"]))
        nval += 1
        if len(res["samples"]) < 2:
            res["samples"].append(dict(config=ipc.cfg_key(cfg), warmup=reqs, a=av, observed=rr["observed"]))
    res["validated"] += nval
    for m, dirs, xs in found[:3]:
        av = ev(m, a)
        reqs = [[d, ev(m, xs[i])] for i, d in enumerate(dirs)]
        from .. import replayers

        def run(P):
            return replayers.ip_warm_inverse(P, dict(family=family, cfg=cfg, a=av, warmup=reqs))
        rr, table = ipc.md5_replay_table(m, run)
        res["violations"].append(dict(description="warmed instance does not invert", witness=dict(a=av, warmup=reqs, cfg=ipc.cfg_key(cfg), observed=rr["observed"]),
                                      tags=["warm-inverse"], replay=dict(replayer="ip_warm_inverse", args=dict(family=family, cfg=cfg, a=av, warmup=reqs, md5_table=table))))
        res["status"] = "violated"
    res["vacuity"] = "witnessed" if any(p.model is not None for p in paths) else "VACUOUS"
    if res["vacuity"] != "witnessed":
        raise core.EngineError("no feasible path")


def match_level(item, res):
    """H3: _anonymize_match forward (X) then undo (fresh Y) on an injected symbolic address."""
    cfg, family = item.params["cfg"], item.params["family"]
    W = ipc.width(family)
    F = fam()
    use_real_mask = False
    if family == 4:
        lemma_bad = mask_lemma(res)
        use_real_mask = not lemma_bad
        res["notes"].append("mask oracle: real _is_mask (lemma _is_mask<=>spec discharged on all 2^32 values)" if use_real_mask else
                            "mask lemma FAILED (%r): oracle falls back to the 66-constant specification" % lemma_bad[:2])
    a, _ = ipc.sym_addr("a", W)
    ex = Explorer(deadline=time.time() + item.budget_s)
    found = []

    def h(ex_):
        X, Y = ipc.make(cfg, family), ipc.make(cfg, family)
        inject(X, F, family, a)
        inject(Y, F, family, a)
        t0 = token(family, a)
        t1 = F.ip._anonymize_match(X, t0, False)
        t2 = F.ip._anonymize_match(Y, t1, True)
        v1, v2 = tok_value(t1, W), tok_value(t2, W)
        if family == 4:
            # oracle predicates are evaluated by forking, so that on every path they are plain booleans
            if use_real_mask:
                ma, mv = X._is_mask(SInt.unsigned(a)), X._is_mask(SInt.unsigned(v1))
            else:
                ma, mv = ex_.branch(mask_spec(a)), ex_.branch(mask_spec(v1))
            keep = ma or ex_.branch(in_networks_spec(a, cfg["networks"]))
            img_mask = mv  # the one stated exception; an image inside a preserved network is NOT excused
        else:
            keep, img_mask = False, False
        # kept tokens must come back untouched from both passes; others must come back unless the image is mask-shaped
        if keep:
            bad = z3.Or(v1 != a, v2 != a)
        elif img_mask:
            bad = v2 != v1
        else:
            bad = v2 != a
        res["finals"] += 1
        m = ex_.model(bad)
        if m is None:
            res["finals_unsat"] += 1
            return ("ok", v1, v2)
        found.append(m)
        return ("cex", v1, v2)
    paths = ex.explore(h)
    harness.add_stats(res, ex)
    for p in paths:
        if p.exc is not None and p.model is not None:
            found.append(p.model)
    P = plain()
    nval = 0
    for p in paths[:40]:
        if p.model is None or p.exc is not None:
            continue
        av = ev(p.model, a)
        r = _match_roundtrip_plain(p.model, cfg, family, av)
        want = [ev(p.model, p.result[1]), ev(p.model, p.result[2])]
        if r["values"] != want:
            raise core.EngineError("concolic mismatch at match level: a=%d symbolic=%r concrete=%r" % (av, want, r["values"]))
        nval += 1
        if len(res["samples"]) < 2:
            res["samples"].append(dict(config=ipc.cfg_key(cfg), token=r["texts"][0], forward=r["texts"][1], undone=r["texts"][2]))
    res["validated"] += nval
    for m in found[:3]:
        av = ev(m, a)
        r = _match_roundtrip_plain(m, cfg, family, av)
        res["violations"].append(dict(description="file-level undo does not restore the token (or touches a kept token)",
                                      witness=dict(a=av, texts=r["texts"], cfg=ipc.cfg_key(cfg)), tags=["match-roundtrip"],
                                      replay=dict(replayer="ip_match_roundtrip", args=dict(family=family, cfg=cfg, a=av, md5_table=r["table"]))))
        res["status"] = "violated"
    res["vacuity"] = "witnessed" if any(p.model is not None for p in paths) else "VACUOUS"
    if res["vacuity"] != "witnessed":
        raise core.EngineError("no feasible path")


def _match_roundtrip_plain(model, cfg, family, av):
    from .. import replayers

    def run(P):
        return replayers.ip_match_roundtrip(P, dict(family=family, cfg=cfg, a=av))
    r, table = ipc.md5_replay_table(model, run)
    r["table"] = table
    return r


# ---------------------------------------------------------------------------------------------------------------
# H4: file level.  FileAnonymizer(anon_ip).anonymize_io, then a fresh FileAnonymizer(undo_ip_anon).anonymize_io on what the
# first one wrote.  Address atoms are rendered to text whose shape (digits per octet / hextet, '::' position) is forked on
# the value, so that the IPv4 pass really rescans what the IPv6 pass wrote, in both directions.
# family: (address family, template with symbolic fields, preserved host bits v4, v6)
FILE_FAMILIES = [
    dict(name="v4-two-octets", family=4, parts=[(77, 8), ("s", 8), (3, 8), ("t", 8)], b4=24, b6=8),
    dict(name="v6-v4mapped", family=6, parts=[(0, 80), (0xffff, 16), (0xc0, 8), ("s", 8), ("t", 16)], b4=8, b6=112),
    dict(name="v6-tail", family=6, parts=[(0x20010db8, 32), (0, 64), ("s", 16), ("t", 16)], b4=8, b6=112),
    dict(name="v4-three-octets", family=4, parts=[("s", 8), ("t", 8), ("u", 8), (9, 8)], b4=8, b6=8),
]


def _classes(nbits, family):
    """magnitude classes of a symbolic field = text shapes of that field (work is sharded over them)"""
    if family == 4 or nbits == 8:
        return [(0, 9), (10, 99), (100, 255)] if family == 4 else [(0, 0xf), (0x10, 0xff)]
    return [(0, 0), (1, 0xf), (0x10, 0xff), (0x100, 0xfff), (0x1000, 0xffff)]


def _file_items(fi, tier):
    import itertools
    fm = FILE_FAMILIES[fi]
    fields = [(v, n) for v, n in fm["parts"] if isinstance(v, str)]
    out = []
    for combo in itertools.product(*[range(len(_classes(n, fm["family"]))) for _, n in fields]):
        out.append(Item("C02", "file_level", dict(fam=fi, cls={v: c for (v, _), c in zip(fields, combo)}), budget_s=600 if tier == "quick" else 3000, obligation="H4-file-level-roundtrip"))
    return out


class _In:
    def __init__(self, lines):
        self.lines = lines

    def readlines(self):
        return list(self.lines)


class _Out:
    def __init__(self):
        self.w = []

    def write(self, x):
        self.w.append(x)


def file_level(item, res):
    fm = FILE_FAMILIES[item.params["fam"]]
    family, W = fm["family"], ipc.width(fm["family"])
    F = fam()
    vs = {}
    pieces = []
    for v, n in fm["parts"]:
        if isinstance(v, str):
            vs[v] = z3.BitVec("f_" + v, n)
            pieces.append(vs[v])
        else:
            pieces.append(z3.BitVecVal(v, n))
    a = z3.Concat(*pieces)
    kw = dict(anon_pwd=False, salt=ipc.SALT, preserve_suffix_v4=fm["b4"], preserve_suffix_v6=fm["b6"])
    ctx = item.params.get("ctx", ["ip ", " x\n"])
    ex = Explorer(deadline=time.time() + item.budget_s)
    found = []

    def text(m, x):
        return x if isinstance(x, str) else "".join(chr(c) if isinstance(c, int) else chr(ev(m, c)) for c in x.cs)

    def plain_run(m):
        from .. import replayers
        av = ev(m, a)

        def run(P):
            return replayers.ip_file_roundtrip(P, dict(family=family, a=av, kw=kw, ctx=ctx))
        r, table = ipc.md5_replay_table(m, run)
        r["table"] = table
        return av, r
    def h(ex_):
        for v, c in (item.params.get("cls") or {}).items():
            lo, hi = _classes(vs[v].size(), family)[c]
            ex_.assume(z3.And(z3.UGE(vs[v], lo), z3.ULE(vs[v], hi)))
        core.RENDER_ATOMS[0] = True
        try:
            tok = SStr([Atom("ipv4" if family == 4 else "ipv6", a)]).render()
            line = SStr.mk([ord(c) for c in ctx[0]] + list(tok.cs) + [ord(c) for c in ctx[1]])
            o1 = _Out()
            F.files.FileAnonymizer(anon_ip=True, **kw).anonymize_io(_In([line]), o1)
            o2 = _Out()
            F.files.FileAnonymizer(anon_ip=False, undo_ip_anon=True, **kw).anonymize_io(_In(list(o1.w)), o2)
            l1 = SStr.of(o1.w[0]) if len(o1.w) == 1 else None
            l2 = SStr.of(o2.w[0]) if len(o2.w) == 1 else None
            if l1 is None or l2 is None:
                raise core.EngineError("anonymize_io wrote %d / %d lines for one" % (len(o1.w), len(o2.w)))
            if isinstance(l1, SStr):
                l1._noatom("compare")
            if isinstance(l2, SStr):
                l2._noatom("compare")
            # the one stated exception: an IPv4 image that is itself mask-shaped is left alone by the undo
            excused = False
            if family == 4:
                img = F.ip.IpAnonymizer(ipc.SALT, None, None, preserve_suffix=fm["b4"]).anonymize(SInt.unsigned(a))
                excused = ex_.branch(mask_spec(ipc.out_bv(img, 32))) or ex_.branch(mask_spec(a))
        finally:
            core.RENDER_ATOMS[0] = False
        res["finals"] += 1
        want = l1 if excused else line
        if len(SStr.of(l2).cs) != len(SStr.of(want).cs):
            m = ex_.model(z3.BoolVal(True))
        else:
            m = ex_.model(z3.Not(SStr.of(l2).eq_expr(SStr.of(want))))
        if m is None:
            res["finals_unsat"] += 1
            return ("ok", line, l1, l2)
        # the text differs; the verdict is by value (another spelling of the restored address is not a violation): decided on
        # the un-instrumented code for this path's model
        av, r = plain_run(m)
        if r["violated"]:
            found.append((m, av, r))
            ex_.stop_requested = True      # one counterexample decides the item
            return ("cex", line, l1, l2)
        res["notes"].append("undone line differs in spelling only: %s" % r["detail"]) if len(res["notes"]) < 3 else None
        return ("spelling", line, l1, l2)
    paths = ex.explore(h)
    harness.add_stats(res, ex)
    nval = 0
    for p in paths[::max(1, len(paths) // 25)]:
        if p.model is None or p.exc is not None or p.result[0] != "ok":
            continue
        av, r = plain_run(p.model)
        want = [text(p.model, p.result[1]), text(p.model, p.result[2]), text(p.model, p.result[3])]
        if r["texts"] != want:
            raise core.EngineError("concolic mismatch at file level: symbolic %r concrete %r" % (want, r["texts"]))
        nval += 1
        if len(res["samples"]) < 2:
            res["samples"].append(dict(family=fm["name"], line=want[0], anonymized=want[1], undone=want[2]))
    res["validated"] += nval
    for p in paths:
        if p.exc is not None and p.model is not None:
            av, r = plain_run(p.model)
            found.append((p.model, av, r))
    for m, av, r in found[:3]:
        res["violations"].append(dict(description="file-level undo of the anonymized line does not restore it: %s" % r["detail"], witness=dict(a=av, texts=r["texts"], options=kw),
                                      tags=["file-roundtrip:%s" % fm["name"]],
                                      replay=dict(replayer="ip_file_roundtrip", args=dict(family=family, a=av, kw=kw, ctx=ctx, md5_table=r["table"]))))
        res["status"] = "violated"
    res["vacuity"] = "witnessed" if any(p.model is not None and p.exc is None for p in paths) else "VACUOUS"
    if res["vacuity"] != "witnessed":
        raise core.EngineError("no feasible path")


HARNESSES = {"cold_inverse": cold_inverse, "warm_inverse": warm_inverse, "match_level": match_level, "file_level": file_level}
