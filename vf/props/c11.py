"""C11 - AS numbers: block-preserving, whole-number-only, keyed replacement."""
import time
import z3

from .. import core, harness, models
from ..core import Explorer, SInt, SStr, Atom
from ..harness import Item, fam, plain, ev

USES_REGEX = True
INFO = dict(
    functions=["AsNumberAnonymizer.__init__", "_generate_as_number_regex", "_generate_as_number_replacement", "_generate_as_number_replacement_map",
               "AsNumberAnonymizer.anonymize", "anonymize_as_numbers", "the generated look-around pattern (interpreted symbolically)"],
    files=["netconan/sensitive_item_removal.py"],
    assumptions=["md5 is an uninterpreted function from text to a 128-bit digest: every digest value and every salt are covered",
                 "str(int) of a symbolic replacement is an opaque injective decimal rendering",
                 "block table in the oracle is copied from the property statement (0-64511, 64512-65535, 65536-4199999999, 4200000000-4294967295)",
                 "H2 witnesses are chosen with replacement != original number so that 'replaced' is observable"],
    outside=["characters above U+00FF (Unicode decimal digits)", "lines longer than the stated bound", "AS-number lists other than the listed families"],
)
BLOCKS = [(0, 64511), (64512, 65535), (65536, 4199999999), (4200000000, 4294967295)]
LISTS = [["123"], ["12", "123", "1234"], ["64511", "64512", "65535", "65536"], ["0", "4294967295"], ["65000", "650"]]


def bounds(tier):
    n = 5 if tier == "quick" else 7
    return dict(replacement="all decimal strings of length 1..10 (all digits symbolic, leading zeros included), all 2^128 digests",
                lines="number lists %r; lines = up to 2 arbitrary Latin-1 characters + listed number + up to 2 arbitrary characters, and all lines of length <= %d "
                      "over Latin-1" % (LISTS, n))


def items(tier, seed):
    out = [Item("C11", "replacement", dict(n=n), budget_s=300, obligation="H1-block-arithmetic") for n in range(1, 11)]
    nfull = 5 if tier == "quick" else 7
    for li, lst in enumerate(LISTS):
        for num in lst:
            for nl in range(0, 3):
                for nr in range(0, 3):
                    out.append(Item("C11", "line_ctx", dict(lst=li, num=num, nl=nl, nr=nr), budget_s=300, obligation="H2-whole-number-only"))
    for li in (0, 1):
        for n in range(0, nfull + 1):
            out.append(Item("C11", "line_full", dict(lst=li, n=n), budget_s=600 if tier == "quick" else 3000, obligation="H2-whole-number-only"))
    return out


def block_of(v):
    for lo, hi in BLOCKS:
        if lo <= v <= hi:
            return lo, hi
    return None


def replacement(item, res):
    n = item.params["n"]
    F = fam()
    ex = Explorer(deadline=time.time() + item.budget_s)
    ds = [z3.BitVec("d%d" % i, 8) for i in range(n)]
    found = []

    def h(ex_):
        for d in ds:
            ex_.assume(z3.And(z3.UGE(d, 48), z3.ULE(d, 57)))
        s = SStr(list(ds))
        an = F.sir.AsNumberAnonymizer([], "S")
        r1 = an._generate_as_number_replacement(s)
        r2 = an._generate_as_number_replacement(s)
        # independent value of the digits
        v = z3.BitVecVal(0, 40)
        for d in ds:
            v = v * 10 + z3.ZeroExt(32, d - 48)
        def val(r):
            if isinstance(r, str):
                if not r.isdigit() or not r.isascii():
                    return None
                return z3.BitVecVal(int(r), 40)
            if isinstance(r, SStr) and len(r.cs) == 1 and isinstance(r.cs[0], Atom) and r.cs[0].kind == "dec":
                e = r.cs[0].e
                return (e, e.size())
            return None
        bad = []
        outs = []
        for r in (r1, r2):
            x = val(r)
            if x is None:
                bad.append(z3.BoolVal(True))
                outs.append(None)
                continue
            if isinstance(x, tuple):
                e, w = x
                w2 = max(w, 41)
                e = z3.SignExt(w2 - w, e)
                vv = z3.ZeroExt(w2 - 40, v)
            else:
                w2 = 41
                e = z3.ZeroExt(1, x)
                vv = z3.ZeroExt(1, v)
            outs.append(e)
            conds = []
            for lo, hi in BLOCKS:
                conds.append(z3.And(z3.UGE(vv, lo), z3.ULE(vv, hi), z3.Not(z3.And(e >= lo, e <= hi))))
            conds.append(z3.UGT(vv, 4294967295))   # out-of-range numbers must have been rejected, not mapped
            bad.append(z3.Or(*conds))
        if outs[0] is not None and outs[1] is not None:
            w = max(outs[0].size(), outs[1].size())
            bad.append(z3.SignExt(w - outs[0].size(), outs[0]) != z3.SignExt(w - outs[1].size(), outs[1]))
        res["finals"] += 1
        m = ex_.model(z3.Or(*bad))
        if m is None:
            res["finals_unsat"] += 1
            return ("ok", r1)
        found.append(m)
        return ("cex", r1, m)
    paths = ex.explore(h)
    harness.add_stats(res, ex)
    P = plain()
    groups = {}
    for p in paths:
        if p.model is None:
            continue
        mdl = p.result[2] if (p.exc is None and p.result[0] == "cex") else p.model
        text = "".join(chr(ev(mdl, d)) for d in ds)
        want_exc = int(text) > 4294967295
        got = _plain_repl(mdl, text)
        if p.exc is not None:
            if isinstance(p.exc, ValueError) and want_exc:
                res["finals"] += 1
                res["finals_unsat"] += 1
                if got != "EXC:ValueError":
                    raise core.EngineError("concolic mismatch: %r -> %r" % (text, got))
                res["validated"] += 1
                continue
            groups.setdefault("raises:%s" % type(p.exc).__name__, []).append((text, got))
            continue
        if p.result[0] == "cex":
            groups.setdefault("block", []).append((text, got))
            continue
        if got != ev(mdl, p.result[1]):
            raise core.EngineError("concolic mismatch: %r -> %r vs %r" % (text, got, ev(mdl, p.result[1])))
        res["validated"] += 1
        if len(res["samples"]) < 3:
            res["samples"].append(dict(as_number=text, replacement=got, block=block_of(int(text))))
    for tag, ws in groups.items():
        text, got = ws[0]
        res["violations"].append(dict(description="AS number replacement outside the block of the original, unstable, or rejected wrongly (%s)" % tag,
                                      witness=dict(as_number=text, replacement=got), tags=["as-" + tag],
                                      replay=dict(replayer="as_replacement", args=dict(number=text, md5_table=_table_for(ws, text, paths, ds)))))
        res["status"] = "violated"
    res["vacuity"] = "witnessed" if res["validated"] else "VACUOUS"
    if not res["validated"] and not groups:
        raise core.EngineError("no feasible path")


_LAST_TABLE = {}


def _plain_repl(model, text, want_table=False, model2=None, **kw):
    from .. import replayers
    P = plain()
    if model is None:
        return None
    table = {}
    dbl = models.model_md5(model, table)
    with replayers.patched_md5(P, dbl):
        try:
            r = P.sir.AsNumberAnonymizer([], "S")._generate_as_number_replacement(text)
        except Exception as e:
            r = "EXC:%s" % type(e).__name__
    _LAST_TABLE[text] = table
    return r


def _table_for(ws, text, paths, ds):
    return _LAST_TABLE.get(text, {})


# ----------------------------------------------------------------------------- H2
def _expected(ex_, line_cs, lst, amap):
    """independent scanner: maximal ASCII-digit runs; a run equal to a listed number is replaced by amap[number]"""
    out = []
    i = 0
    n = len(line_cs)
    DIG = frozenset(range(48, 58))
    replaced = []
    while i < n:
        if core.char_in(line_cs[i], DIG):
            j = i
            while j < n and core.char_in(line_cs[j], DIG):
                j += 1
            run = SStr(line_cs[i:j])
            hit = None
            for num in lst:
                if len(num) == j - i and ex_.branch(run.eq_expr(num)):
                    hit = num
                    break
            if hit is None:
                out.extend(line_cs[i:j])
            else:
                out.extend(SStr.of(amap[hit]).cs)
                replaced.append(hit)
            i = j
        else:
            out.append(line_cs[i])
            i += 1
    return out, replaced


def _shape(cs):
    return [("A" if isinstance(c, Atom) else "c") for c in cs]


def _line_check(item, res, lst, mk_line, label):
    F = fam()
    ex = Explorer(deadline=time.time() + item.budget_s)
    found = []

    # the anonymizer has no symbolic input: constructed once (real constructor, uninterpreted md5), shared by all paths
    def build(ex_):
        an_ = F.sir.AsNumberAnonymizer(list(lst), "S")
        amap_ = {k: an_.anonymize(k) for k in lst}
        distinct_ = []   # witnesses only: a replacement differs from the number it replaces (so that 'replaced' is observable)
        for k in lst:
            v = amap_[k]
            if isinstance(v, SStr) and len(v.cs) == 1 and isinstance(v.cs[0], Atom):
                distinct_.append(v.cs[0].e != int(k))
        return an_, amap_, distinct_
    # construction has no symbolic input; when it does not fork it is done once and shared by all paths
    pre = Explorer().explore(lambda e: build(e), want_model=False)
    shared = pre[0].result if len(pre) == 1 and pre[0].exc is None else None

    def h(ex_):
        an, amap, distinct = shared if shared is not None else build(ex_)
        line_cs, syms = mk_line(ex_)
        line = SStr.mk(list(line_cs))
        out = F.sir.anonymize_as_numbers(an, line)
        out_cs = list(SStr.of(out).cs)
        exp_cs, replaced = _expected(ex_, list(line_cs), lst, amap)
        res["finals"] += 1
        if _shape(out_cs) != _shape(exp_cs):
            m = ex_.model(*distinct)
            if m is None:
                raise core.EngineError("no witness with replacement != original")
            found.append((m, syms, line_cs))
            return ("cex-shape", line_cs, out_cs)
        m = ex_.model(z3.Not(SStr(out_cs).eq_expr(SStr(exp_cs))))
        if m is None:
            res["finals_unsat"] += 1
            return ("ok", line_cs, out_cs, replaced)
        found.append((m, syms, line_cs))
        return ("cex", line_cs, out_cs)
    paths = ex.explore(h)
    harness.add_stats(res, ex)
    nval = 0
    for p in paths:
        if p.exc is not None and p.model is not None:
            found.append((p.model, None, p.extra.get("line")))
    for p in paths[::max(1, len(paths) // 30)]:
        if p.model is None or p.exc is not None or p.result[0] != "ok":
            continue
        text = ev(p.model, SStr(list(p.result[1])))
        got = _plain_line(p.model, lst, text)
        want = ev(p.model, SStr(list(p.result[2])))
        if got["out"] != want:
            raise core.EngineError("concolic mismatch: %r -> %r vs %r" % (text, got["out"], want))
        nval += 1
        if len(res["samples"]) < 3 and p.result[3]:
            res["samples"].append(dict(numbers=lst, line=text, output=got["out"]))
    res["validated"] += nval
    seen = set()
    for m, syms, line_cs in found[:6]:
        if line_cs is None:
            continue
        text = ev(m, SStr(list(line_cs)))
        got = _plain_line(m, lst, text)
        if text in seen:
            continue
        seen.add(text)
        res["violations"].append(dict(description="AS number substitution is not whole-number-only / complete on this line",
                                      witness=dict(numbers=lst, line=text, output=got["out"], expected=got["expected"]), tags=["as-line"],
                                      replay=dict(replayer="as_line", args=dict(numbers=lst, line=text, md5_table=got["table"]))))
        res["status"] = "violated"
    res["vacuity"] = "witnessed" if any(p.exc is None and p.result and p.result[0] == "ok" and p.result[3] for p in paths) or label == "full-short" else "VACUOUS"
    if res["vacuity"] != "witnessed":
        raise core.EngineError("vacuity: no path on which a listed number is replaced")


def _plain_line(model, lst, text):
    from .. import replayers
    P = plain()
    table = {}
    dbl = models.model_md5(model, table)
    with replayers.patched_md5(P, dbl):
        r = replayers.as_line(P, dict(numbers=lst, line=text))
    r["table"] = table
    return r


def line_ctx(item, res):
    lst = LISTS[item.params["lst"]]
    num, nl, nr = item.params["num"], item.params["nl"], item.params["nr"]

    def mk(ex_):
        L = [z3.BitVec("l%d" % i, 8) for i in range(nl)]
        R = [z3.BitVec("r%d" % i, 8) for i in range(nr)]
        return L + [ord(c) for c in num] + R, L + R
    _line_check(item, res, lst, mk, "ctx")


def line_full(item, res):
    lst = LISTS[item.params["lst"]]
    n = item.params["n"]

    def mk(ex_):
        cs = [z3.BitVec("c%d" % i, 8) for i in range(n)]
        return cs, cs
    _line_check(item, res, lst, mk, "full-short" if n < min(len(x) for x in lst) else "full")


HARNESSES = {"replacement": replacement, "line_ctx": line_ctx, "line_full": line_full}
