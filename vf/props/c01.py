"""C01 - IP anonymization preserves common-prefix length (IPv4 and IPv6); injective, hence a permutation."""
import time
import z3

from .. import core, harness, models
from ..core import Explorer, SInt, SStr
from ..harness import Item, fam, plain, ev
from . import ipcommon as ipc

INFO = dict(
    functions=["netconan.ip_anonymization.IpAnonymizer.__init__", "_BaseIpAnonymizer.anonymize", "_BaseIpAnonymizer._anonymize_bits",
               "_generate_bit_from_hash", "IpV6Anonymizer.__init__", "stdlib ipaddress.ip_network (constructor seeding)"],
    files=["netconan/ip_anonymization.py"],
    assumptions=[
        "md5 is modelled as an uninterpreted function from input text to a 128-bit digest (one symbol per input length); "
        "every claim therefore holds for every such function, hence for every salt string",
        "bidict is replaced by a model with the same duplication policy (validated differentially in the engine self-test)",
        "counterexamples are replayed on the un-instrumented code with md5 replaced by a table realising the solver model",
    ],
    outside=["preserved-prefix / network lists other than the configuration family listed under bounds",
             "host-bit counts outside the listed values (quick tier)"],
)


def bounds(tier):
    return dict(addresses="all 2^32 (IPv4) / 2^128 (IPv6) addresses, all pairs", hash="all functions text -> 128-bit digest",
                symbolic_prefixes="every user prefix of length %s (network bits symbolic), two arbitrary addresses on one instance" % ("8" if tier == "quick" else "0,1,7,8,9,16,23,24,25,31,32 and the pair (8,12)"),
                v4_configs=[ipc.cfg_key(c) for c in ipc.configs_v4(tier)], v6_host_bits=[c["B"] for c in ipc.configs_v6(tier)],
                joint_runs="two requests on one shared instance" + (" (all v4 configs; v6 B in {0,8})" if tier == "thorough" else " (v4: prefixes none/classes, B in {0,8})"),
                bit_function="_generate_bit_from_hash: strings of length <= 3 (symbolic characters), two calls")


def items(tier, seed):
    out = []
    for cfg in ipc.configs_v4(tier):
        out.append(Item("C01", "pair_summary", dict(family=4, cfg=cfg), budget_s=240, obligation="H1-pair-summary-v4"))
    for cfg in ipc.configs_v6(tier):
        out.append(Item("C01", "pair_summary", dict(family=6, cfg=cfg), budget_s=400, obligation="H1-pair-summary-v6"))
    if tier == "quick":
        joint = [dict(prefixes=pf, networks=None, B=b) for pf in ([], list(ipc.CLASSES)) for b in (0, 8)]
    else:
        joint = ipc.configs_v4("quick")
    for cfg in joint:
        heavy = cfg["prefixes"] is None or bool(cfg["networks"])
        for lo, hi in ipc.shards(33, 4 if heavy else 2):
            out.append(Item("C01", "pair_joint", dict(family=4, cfg=cfg, ms=[lo, hi]), budget_s=1200 if tier == "thorough" else 300, obligation="H2-pair-joint-v4"))
    for cfg in ([dict(prefixes=list(ipc.CLASSES), networks=None, B=8)] if tier == "quick" else [dict(prefixes=list(ipc.CLASSES), networks=None, B=8), dict(prefixes=None, networks=None, B=0)]):
        for lo, hi in ipc.shards(33, 2 if tier == "quick" else 4):
            out.append(Item("C01", "pair_joint", dict(family=4, cfg=cfg, ms=[lo, hi], arbitrary_memo_size=True), budget_s=1200 if tier == "thorough" else 300, obligation="H2b-pair-joint-arbitrary-memo-size"))
    if tier == "thorough":
        for b in (0, 8):
            for lo, hi in ipc.shards(129, 16):
                out.append(Item("C01", "pair_joint", dict(family=6, cfg=dict(prefixes=None, networks=None, B=b), ms=[lo, hi]), budget_s=3000, obligation="H2-pair-joint-v6"))
    for L in ((8,) if tier == "quick" else (0, 1, 7, 8, 9, 16, 23, 24, 25, 31, 32)):
        for B in ((0, 8) if tier == "quick" else (0, 8, 12)):
            for lo, hi in ipc.shards(33, 4 if L <= 9 else 11):
                out.append(Item("C01", "pair_sym_prefix", dict(lengths=[L], B=B, ms=[lo, hi]), budget_s=600 if tier == "quick" else 2400, obligation="H2c-pair-under-every-user-prefix"))
    if tier == "thorough":
        for L1, L2 in ((8, 12),):     # (16, 24) exceeds the item budget (measured: > 50 min per shard)
            for lo, hi in ipc.shards(33, 8):
                out.append(Item("C01", "pair_sym_prefix", dict(lengths=[L1, L2], B=0, ms=[lo, hi]), budget_s=3000, obligation="H2c-pair-under-every-user-prefix"))
    for n in range(0, 4):
        out.append(Item("C01", "bit_function", dict(n=n), budget_s=60, obligation="H3-bit-function"))
    return out


def _pair_witness(model, cfg, family, a, b, shared):
    av, bv = ev(model, a), ev(model, b)
    table, rr = ipc.md5_table_for(model, cfg, family, [["a", av], ["a", bv]])
    args = dict(family=family, cfg=cfg, a=av, b=bv, shared=shared, md5_table=table)
    return dict(a=av, b=bv, cfg=ipc.cfg_key(cfg), family=family, plain_results=rr["results"]), dict(replayer="ip_pair", args=args)


def pair_summary(item, res):
    """H1: summarise anonymize() on a fresh instance, then ONE query over two copies of the summary."""
    cfg, family = item.params["cfg"], item.params["family"]
    W = ipc.width(family)
    sm = ipc.Summary(cfg, family, "anonymize", "a", budget_s=item.budget_s, res=res)
    gap = sm.coverage_gap()
    if gap is not None:
        raise core.EngineError("summary does not cover the input space")
    a = sm.var
    b = z3.BitVec("b", W)
    # exceptions: anonymize must be total
    m = ipc.final_check(res, None, sm.exc_cond())
    if m is not None:
        av = ev(m, a)
        table, rr = ipc.md5_table_for(m, cfg, family, [["a", av]])
        res["violations"].append(dict(description="anonymize raises", witness=dict(a=av, cfg=ipc.cfg_key(cfg), results=rr["results"]),
                                      tags=["anonymize-raises"],
                                      replay=dict(replayer="ip_pair", args=dict(family=family, cfg=cfg, a=av, b=av, shared=False, md5_table=table))))
        res["status"] = "violated"
        return
    oa, ob = sm.expr(), sm.expr(b)
    bad = ipc.cpl_violation(a, b, oa, ob, W)
    m = ipc.final_check(res, None, bad)
    res["samples"].append(dict(config=ipc.cfg_key(cfg), family=family, summary_paths=len(sm.cases),
                               example_path=dict(a=ev(sm.cases[0][3].model, a), image=ev(sm.cases[0][3].model, sm.cases[0][1])) if sm.cases[0][3].model is not None and sm.cases[0][1] is not None else None))
    if m is not None:
        wit, rp = _pair_witness(m, cfg, family, a, b, False)
        res["violations"].append(dict(description="common-prefix length not preserved (fresh instances)", witness=wit, tags=["cpl"], replay=rp))
        res["status"] = "violated"
    # vacuity twin: the negated property must be satisfiable (two addresses sharing exactly k bits exist and map somewhere)
    tw = ipc.final_check(res, None, z3.And(a != b, oa != ob))
    res["finals"] -= 1
    res["vacuity"] = "witnessed" if tw is not None else "VACUOUS"
    if tw is None:
        raise core.EngineError("vacuity twin failed: distinct images unreachable")


def pair_joint(item, res):
    """H2: anonymize(a) then anonymize(b) on the SAME instance (shared memo); assertion discharged on every joint path."""
    cfg, family = item.params["cfg"], item.params["family"]
    W = ipc.width(family)
    a, sa = ipc.sym_addr("a", W)
    ex = Explorer(deadline=time.time() + item.budget_s)
    found = []
    lo, hi = item.params.get("ms", [0, W + 1])

    extra = z3.BitVec("memo_extra", 40)

    def h(ex_):
        an = ipc.make(cfg, family)
        if item.params.get("arbitrary_memo_size"):
            # the memo may hold any number (up to 10^6, so that a replay can build it) of further entries from an earlier history
            ex_.assume(z3.ULE(extra, 1000000))
            an.cache.extra_len = SInt.unsigned(extra)
            ex_.path_data["md5"] = models.ENV.md5_calls
        # b is arbitrary: exhaustive case split on the number of leading bits it shares with a
        mm = lo + ex_.choice(hi - lo, "shared-prefix")
        b = ipc.related(a, mm, "b_free", W)
        ra = an.anonymize(sa)
        rb = an.anonymize(SInt.unsigned(b) if not z3.is_bv_value(b) else b.as_long())
        oa, ob = ipc.out_bv(ra, W), ipc.out_bv(rb, W)
        res["finals"] += 1
        m = ex_.model(ipc.cpl_violation(a, b, oa, ob, W))
        if m is None:
            res["finals_unsat"] += 1
            return ("ok", oa, ob, b)
        wit, rp = _pair_witness(m, cfg, family, a, b, True)
        if item.params.get("arbitrary_memo_size"):
            bad = ipc.cpl_violation(a, b, oa, ob, W)
            lo_, hi_, best = 0, m.eval(extra, model_completion=True).as_long(), m
            while lo_ < hi_:
                mid = (lo_ + hi_) // 2
                m2 = ex_.model(bad, z3.ULE(extra, mid))
                if m2 is not None:
                    best, hi_ = m2, m2.eval(extra, model_completion=True).as_long()
                else:
                    lo_ = mid + 1
            wit, rp = _pair_witness(best, cfg, family, a, b, True)
            for data, dig in models.ENV.md5_calls:
                rp["args"]["md5_table"].setdefault(ev(best, data), "%032x" % best.eval(dig, model_completion=True).as_long())
            rp["args"]["pad_to"] = best.eval(extra, model_completion=True).as_long()
            wit["memo_padding"] = rp["args"]["pad_to"]
        found.append((wit, rp))
        return ("cex", oa, ob, b)
    paths = ex.explore(h)
    harness.add_stats(res, ex)
    nval = 0
    for p in paths:
        if p.exc is not None:
            av = ev(p.model, a)
            bv = ev(p.model, ipc.related(a, lo + (p.decisions[0] if p.decisions else 0), "b_free", W))
            table, rr = ipc.md5_table_for(p.model, cfg, family, [["a", av], ["a", bv]])
            rargs = dict(family=family, cfg=cfg, a=av, b=bv, shared=True, md5_table=table)
            if item.params.get("arbitrary_memo_size"):
                for data, dig in p.extra.get("md5", []):
                    table.setdefault(ev(p.model, data), "%032x" % p.model.eval(dig, model_completion=True).as_long())
                rargs["pad_to"] = ev(p.model, extra)
            res["violations"].append(dict(description="anonymize raises %s on a shared instance" % type(p.exc).__name__,
                                          witness=dict(a=av, b=bv, cfg=ipc.cfg_key(cfg), plain_results=rr["results"], memo_padding=rargs.get("pad_to")), tags=["anonymize-raises"],
                                          replay=dict(replayer="ip_pair", args=rargs)))
            continue
        if p.model is not None and nval < 40 and not (item.params.get("arbitrary_memo_size") and ev(p.model, extra) > 0):
            av, bv = ev(p.model, a), ev(p.model, p.result[3])
            _, rr = ipc.md5_table_for(p.model, cfg, family, [["a", av], ["a", bv]])
            want = [ev(p.model, p.result[1]), ev(p.model, p.result[2])]
            if rr["results"] != want:
                raise core.EngineError("concolic mismatch: a=%d b=%d symbolic=%r concrete=%r" % (av, bv, want, rr["results"]))
            nval += 1
            if len(res["samples"]) < 2:
                res["samples"].append(dict(config=ipc.cfg_key(cfg), a=av, b=bv, images=want))
    res["validated"] += nval
    for wit, rp in found[:3]:
        res["violations"].append(dict(description="common-prefix length not preserved (shared instance)", witness=wit, tags=["cpl"], replay=rp))
    if res["violations"]:
        res["status"] = "violated"
    if not paths:
        raise core.EngineError("no path explored")
    res["vacuity"] = "witnessed"  # every path ends in the assertion query; reachability = paths > 0 with models
    if not any(p.model is not None for p in paths):
        raise core.EngineError("vacuity: no feasible path")


def bit_function(item, res):
    """H3: _generate_bit_from_hash(salt, s) returns 0/1 and is a function of (salt, s) only."""
    n = item.params["n"]
    F = fam()
    ex = Explorer(deadline=time.time() + item.budget_s)
    cs1 = [z3.BitVec("s%d" % i, 8) for i in range(n)]
    cs2 = [z3.BitVec("t%d" % i, 8) for i in range(n)]

    def h(ex_):
        s1, s2 = SStr.mk(list(cs1)), SStr.mk(list(cs2))
        r1 = F.ip._generate_bit_from_hash("S", s1)
        r2 = F.ip._generate_bit_from_hash("S", s2)
        bad = []
        for r in (r1, r2):
            if isinstance(r, int):
                if r not in (0, 1):
                    bad.append(z3.BoolVal(True))
            else:
                bad.append(z3.Or(r._cmp_expr(0, "lt"), r._cmp_expr(1, "gt")))
        same = z3.And(*[x == y for x, y in zip(cs1, cs2)]) if n else z3.BoolVal(True)
        e1 = r1.e if isinstance(r1, SInt) else z3.BitVecVal(r1, 8)
        e2 = r2.e if isinstance(r2, SInt) else z3.BitVecVal(r2, 8)
        if e1.size() != e2.size():
            w = max(e1.size(), e2.size())
            e1, e2 = z3.SignExt(w - e1.size(), e1), z3.SignExt(w - e2.size(), e2)
        bad.append(z3.And(same, e1 != e2))
        res["finals"] += 1
        m = ex_.model(z3.Or(*bad))
        if m is None:
            res["finals_unsat"] += 1
            return "ok"
        return ("cex", "".join(chr(ev(m, c)) for c in cs1), "".join(chr(ev(m, c)) for c in cs2))
    paths = ex.explore(h)
    harness.add_stats(res, ex)
    for p in paths:
        if p.exc is not None or (isinstance(p.result, tuple) and p.result[0] == "cex"):
            res["status"] = "violated"
            res["violations"].append(dict(description="_generate_bit_from_hash is not a 0/1-valued function of its arguments: %r %r" % (p.exc, p.result),
                                          witness=dict(result=repr(p.result), exc=repr(p.exc)), tags=["bit-function"],
                                          replay=dict(replayer="bit_function", args=dict(n=n))))
    res["samples"].append(dict(n=n, paths=len(paths)))
    res["vacuity"] = "witnessed" if paths else "VACUOUS"


def pair_sym_prefix(item, res):
    """H2c: prefix preservation for two arbitrary addresses under *every* user prefix (pair) of the given lengths."""
    import ipaddress
    lengths, B = item.params["lengths"], item.params["B"]
    W = 32
    a, sa = ipc.sym_addr("a", W)
    lo, hi = item.params.get("ms", [0, W + 1])
    ex = Explorer(deadline=time.time() + item.budget_s)
    found = []

    def h(ex_):
        an, tops = ipc.make_with_symbolic_prefix(ex_, lengths, B)
        ex_.path_data["tops"] = tops
        mm = lo + ex_.choice(hi - lo, "shared-prefix")
        b = ipc.related(a, mm, "b_free", W)
        oa = ipc.out_bv(an.anonymize(sa), W)
        ob = ipc.out_bv(an.anonymize(SInt.unsigned(b) if not z3.is_bv_value(b) else b.as_long()), W)
        res["finals"] += 1
        m = ex_.model(ipc.cpl_violation(a, b, oa, ob, W))
        if m is None:
            res["finals_unsat"] += 1
            return ("ok", oa, ob, b, tops)
        found.append((m, b, tops))
        return ("cex", oa, ob, b, tops)
    paths = ex.explore(h)
    harness.add_stats(res, ex)

    def cfg_of(m, tops):
        pf = []
        for t, L in tops:
            v = (ev(m, t) << (32 - L)) if L else 0
            pf.append("%s/%d" % (ipaddress.IPv4Address(v), L))
        return dict(prefixes=pf, networks=None, B=B)
    nval = 0
    for p in paths:
        if p.exc is not None and p.model is not None:
            found.append((p.model, a, p.extra.get("tops", [])))
        elif p.model is not None and nval < 20:
            cfg = cfg_of(p.model, p.result[4])
            av, bv = ev(p.model, a), ev(p.model, p.result[3])
            _, rr = ipc.md5_table_for(p.model, cfg, 4, [["a", av], ["a", bv]])
            if rr["results"] != [ev(p.model, p.result[1]), ev(p.model, p.result[2])]:
                raise core.EngineError("concolic mismatch under symbolic prefix %r" % (cfg["prefixes"],))
            nval += 1
            if len(res["samples"]) < 2:
                res["samples"].append(dict(prefixes=cfg["prefixes"], B=B, a=av, b=bv, images=rr["results"]))
    res["validated"] += nval
    for m, b, tops in found[:3]:
        cfg = cfg_of(m, tops)
        wit, rp = _pair_witness(m, cfg, 4, a, b, True)
        res["violations"].append(dict(description="common-prefix length not preserved under user prefix %r" % cfg["prefixes"], witness=wit, tags=["cpl"], replay=rp))
        res["status"] = "violated"
    res["vacuity"] = "witnessed" if any(p.model is not None for p in paths) else "VACUOUS"
    if res["vacuity"] != "witnessed":
        raise core.EngineError("no feasible path")


HARNESSES = {"pair_summary": pair_summary, "pair_joint": pair_joint, "bit_function": bit_function, "pair_sym_prefix": pair_sym_prefix}
