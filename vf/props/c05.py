"""C05 - Netmasks and preserved addresses stay untouched and nothing collides with them."""
import time
import z3

from .. import core, harness
from ..core import Explorer, SInt, SStr, Atom
from ..harness import Item, fam, plain, ev
from . import ipcommon as ipc
from .ipcommon import mask_spec, in_networks_spec, inject, token, tok_value

INFO = dict(
    functions=["IpAnonymizer._is_mask", "IpAnonymizer.should_anonymize", "_anonymize_match", "IpAnonymizer.__init__ (networks merged into prefixes)",
               "_BaseIpAnonymizer.anonymize", "stdlib ipaddress.IPv4Address(int), IPv4Network.__contains__"],
    files=["netconan/ip_anonymization.py"],
    assumptions=["md5 is an uninterpreted function (all salts)", "mask oracle: disjunction of the 66 ones-then-zeros / zeros-then-ones constants (independent of the code)",
                 "network membership oracle computed from the configuration text with the plain stdlib",
                 "an already-parsed symbolic address is injected in place of make_addr (text parsing is C06's subject)"],
    outside=["mask-shaped *images* are allowed by the statement", "--preserve-private-addresses flag equivalence is checked in C19", "network lists outside the family"],
)

NETS_Q = [None, list(ipc.RFC1918), ["11.22.33.44/32"], ["200.1.2.128/25", "8.8.8.8/32", "0.0.0.0/8"]]


def _cfgs(tier):
    bs = [0, 8, 32] if tier == "quick" else [0, 1, 8, 16, 24, 31, 32]
    out = []
    for pf in ([], None):
        for nets in NETS_Q:
            for b in bs:
                out.append(dict(prefixes=pf, networks=nets, B=b))
    return out


def bounds(tier):
    return dict(symbolic_networks="every preserved network of prefix length %s (network bits symbolic)" % ("8, 27, 32" if tier == "quick" else "1,7,8,9,12,16,24,25,27,31,32"),
                mask_predicate="all 2^32 values", addresses="all 2^32 addresses (token injected as parsed value)", hash="all functions",
                configs=[ipc.cfg_key(c) for c in _cfgs(tier)])


def items(tier, seed):
    out = [Item("C05", "mask_predicate", {}, budget_s=60, obligation="H1-mask-predicate")]
    for c in _cfgs(tier):
        out.append(Item("C05", "untouched", dict(cfg=c), budget_s=300, obligation="H2-kept-verbatim"))
        if c["networks"]:
            out.append(Item("C05", "no_collision", dict(cfg=c), budget_s=300, obligation="H3-no-collision"))
    for L in ((8, 27, 32) if tier == "quick" else (1, 7, 8, 9, 12, 16, 24, 25, 27, 31, 32)):
        for B in ((0, 8) if tier == "quick" else (0, 4, 8)):
            out.append(Item("C05", "sym_network", dict(L=L, B=B, default_prefixes=False), budget_s=600, obligation="H2H3-every-network-of-a-length"))
    out.append(Item("C05", "sym_network", dict(L=12, B=8, default_prefixes=True), budget_s=900, obligation="H2H3-every-network-of-a-length"))
    # ... next to fixed preserved networks (nested inside / containing / disjoint from the symbolic one), both list orders
    for L, others in ((24, ["172.16.0.0/12"]),) if tier == "quick" else \
            ((24, ["172.16.0.0/12", "9.9.9.9/32"]), (8, ["10.20.0.0/16", "200.1.2.0/24"]), (16, ["10.0.0.0/8", "172.16.0.0/12", "192.168.0.0/16"]), (30, ["200.1.2.128/25", "200.1.2.192/26"]),
             (12, ["172.16.5.0/24"]), (32, ["8.8.8.0/24"])):
        for first in (True, False):
            out.append(Item("C05", "sym_network", dict(L=L, B=8 if L <= 24 else 0, default_prefixes=False, others=others, first=first), budget_s=900,
                            obligation="H2H3-every-network-of-a-length-next-to-fixed-networks"))
    return out


def mask_predicate(item, res):
    bad = ipc.mask_lemma(res)
    res["samples"].append(dict(predicate="_is_mask", domain="2^32", disagreements=bad[:3]))
    res["vacuity"] = "witnessed"
    for b in bad[:3]:
        if isinstance(b, int):
            res["violations"].append(dict(description="_is_mask disagrees with the mask/wildcard specification", witness=dict(value=b), tags=["is-mask"],
                                          replay=dict(replayer="is_mask", args=dict(value=b))))
        else:
            res["violations"].append(dict(description="_is_mask: %s" % b, witness=dict(note=b), tags=["is-mask"], replay=dict(replayer="is_mask", args=dict(value=None))))
        res["status"] = "violated"


def untouched(item, res):
    """H2: mask-shaped or preserved => token returned verbatim; otherwise replaced by the rendered image of the address."""
    cfg = item.params["cfg"]
    F = fam()
    W = 32
    A = ipc.Summary(cfg, 4, "anonymize", "a", budget_s=item.budget_s / 2, res=res)
    a = A.var
    image = A.expr()
    ex = Explorer(deadline=time.time() + item.budget_s / 2)
    found = []

    def h(ex_):
        X = ipc.make(cfg, 4)
        inject(X, F, 4, a)
        t0 = token(4, a)
        t1 = F.ip._anonymize_match(X, t0, False)
        keep = ex_.branch(mask_spec(a)) or ex_.branch(in_networks_spec(a, cfg["networks"]))
        if keep:
            ok = t1 is t0
            bad = z3.BoolVal(not ok)
        else:
            if t1 is t0:
                bad = z3.BoolVal(True)
            else:
                bad = tok_value(t1, W) != image
        res["finals"] += 1
        m = ex_.model(bad)
        if m is None:
            res["finals_unsat"] += 1
            return ("ok", keep, tok_value(t1, W))
        found.append(m)
        return ("cex", keep, None)
    paths = ex.explore(h)
    harness.add_stats(res, ex)
    for p in paths:
        if p.exc is not None and p.model is not None:
            found.append(p.model)
    nval = 0
    for p in paths[:40]:
        if p.model is None or p.exc is not None or p.result[0] != "ok":
            continue
        av = ev(p.model, a)
        r = _plain_match(p.model, cfg, av)
        if r["value"] != ev(p.model, p.result[2]):
            raise core.EngineError("concolic mismatch: a=%d symbolic=%r concrete=%r" % (av, ev(p.model, p.result[2]), r))
        nval += 1
        if len(res["samples"]) < 3:
            res["samples"].append(dict(config=ipc.cfg_key(cfg), token=r["texts"][0], output=r["texts"][1], kept=p.result[1]))
    res["validated"] += nval
    for m in found[:3]:
        av = ev(m, a)
        r = _plain_match(m, cfg, av)
        res["violations"].append(dict(description="mask/preserved token not kept verbatim, or other address not replaced by its image",
                                      witness=dict(a=av, texts=r["texts"], cfg=ipc.cfg_key(cfg)), tags=["kept-verbatim"],
                                      replay=dict(replayer="ip_untouched", args=dict(cfg=cfg, a=av, md5_table=r["table"]))))
        res["status"] = "violated"
    kinds = {p.result[1] for p in paths if p.exc is None and p.result}
    res["vacuity"] = "witnessed" if kinds == {True, False} or (cfg["B"] >= 32 and kinds) else "VACUOUS"
    if res["vacuity"] != "witnessed":
        raise core.EngineError("vacuity: kept and replaced tokens not both reachable (%r)" % kinds)


def _plain_match(model, cfg, av):
    from .. import replayers

    def run(P):
        return replayers.ip_untouched(P, dict(cfg=cfg, a=av))
    r, table = ipc.md5_replay_table(model, run)
    r["table"] = table
    return r


def no_collision(item, res):
    """H3: a outside a preserved network N  =>  anonymize(a) outside N (and inside stays inside)."""
    from .c04 import member
    cfg = item.params["cfg"]
    A = ipc.Summary(cfg, 4, "anonymize", "a", budget_s=item.budget_s, res=res)
    if A.coverage_gap() is not None:
        raise core.EngineError("summary does not cover the input space")
    a, oa = A.var, A.expr()
    nets = list(cfg["networks"])
    m = ipc.final_check(res, None, z3.Or(A.exc_cond(), *[member(a, n) != member(oa, n) for n in nets]))
    res["samples"].append(dict(config=ipc.cfg_key(cfg), networks=nets, summary_paths=len(A.cases)))
    if m is not None:
        av = ev(m, a)
        table, rr = ipc.md5_table_for(m, cfg, 4, [["a", av]])
        res["violations"].append(dict(description="an address outside a preserved network is mapped into it (or vice versa)",
                                      witness=dict(a=av, image=rr["fresh"], cfg=ipc.cfg_key(cfg)), tags=["collision"],
                                      replay=dict(replayer="ip_preserve", args=dict(family=4, cfg=cfg, a=av, b=None, md5_table=table))))
        res["status"] = "violated"
    # reachability twin: some address outside the first preserved network exists and is mapped (moved whenever any bit is free)
    tw = ipc.final_check(res, None, z3.And(z3.Not(member(a, nets[0])), oa != a if cfg["B"] < 24 else z3.BoolVal(True)))
    res["finals"] -= 1
    res["vacuity"] = "witnessed" if tw is not None or cfg["B"] >= 32 else "VACUOUS"
    if res["vacuity"] != "witnessed":
        raise core.EngineError("vacuity twin failed")


def sym_network(item, res):
    """H2/H3 for *every* preserved network of a given prefix length (network bits symbolic)."""
    L, B, use_default = item.params["L"], item.params["B"], item.params["default_prefixes"]
    others = item.params.get("others") or []
    F = fam()
    W = 32
    a, sa = ipc.sym_addr("a", W)
    ex = Explorer(deadline=time.time() + item.budget_s)
    found = []

    def h(ex_):
        top = z3.BitVec("net", L) if L else None
        net = SInt.unsigned(z3.Concat(top, z3.BitVecVal(0, 32 - L)) if L < 32 else top) if L else 0
        nets = ([(net, L)] + list(others)) if item.params.get("first", True) else (list(others) + [(net, L)])
        an = F.ip.IpAnonymizer(ipc.SALT, None if use_default else [], nets, preserve_suffix=B)
        ex_.path_data["top"] = top
        inside_sym = ex_.branch(ipc.in_sym_prefix(a, top, L))
        inside_fixed = [ex_.branch(in_networks_spec(a, [o])) for o in others]
        inside = inside_sym or any(inside_fixed)
        masky = ex_.branch(mask_spec(a))
        should = an.should_anonymize(sa)
        r = ipc.out_bv(an.anonymize(sa), W)
        bad = [z3.BoolVal(should != (not (inside or masky))), ipc.in_sym_prefix(r, top, L) != z3.BoolVal(inside_sym)]
        bad += [in_networks_spec(r, [o]) != z3.BoolVal(f) for o, f in zip(others, inside_fixed)]
        res["finals"] += 1
        m = ex_.model(z3.Or(*bad))
        if m is None:
            res["finals_unsat"] += 1
            return ("ok", r, top, inside)
        found.append((m, top))
        return ("cex", r, top, inside)
    paths = ex.explore(h)
    harness.add_stats(res, ex)

    def cfg_of(m, top):
        v = (ev(m, top) << (32 - L)) if L else 0
        import ipaddress
        mine = ["%s/%d" % (ipaddress.IPv4Address(v), L)]
        return dict(prefixes=None if use_default else [], networks=(mine + list(others)) if item.params.get("first", True) else (list(others) + mine), B=B)
    nval = 0
    for p in paths:
        if p.exc is not None and p.model is not None:
            found.append((p.model, p.extra.get("top")))
        elif p.model is not None and nval < 20:
            cfg = cfg_of(p.model, p.result[2])
            av = ev(p.model, a)
            _, rr = ipc.md5_table_for(p.model, cfg, 4, [["a", av]])
            if rr["fresh"][0] != ev(p.model, p.result[1]):
                raise core.EngineError("concolic mismatch with symbolic network %r" % (cfg,))
            nval += 1
            if len(res["samples"]) < 2:
                res["samples"].append(dict(network=cfg["networks"], B=B, a=av, image=rr["fresh"][0], inside=p.result[3]))
    res["validated"] += nval
    for m, top in found[:3]:
        cfg = cfg_of(m, top)
        av = ev(m, a)
        r = _plain_match(m, cfg, av)
        res["violations"].append(dict(description="preserved network %r: address kept/replaced wrongly or mapped across the network boundary" % cfg["networks"],
                                      witness=dict(a=av, cfg=ipc.cfg_key(cfg), texts=r["texts"]), tags=["sym-network"],
                                      replay=dict(replayer="ip_network_contract", args=dict(cfg=cfg, a=av, md5_table=r["table"]))))
        res["status"] = "violated"
    res["vacuity"] = "witnessed" if {p.result[3] for p in paths if p.exc is None and p.result} == {True, False} or L == 0 else "VACUOUS"
    if res["vacuity"] != "witnessed":
        raise core.EngineError("vacuity: inside and outside addresses not both reachable")


HARNESSES = {"mask_predicate": mask_predicate, "untouched": untouched, "no_collision": no_collision, "sym_network": sym_network}
