#!/usr/bin/env python3
"""(re)writes seeded/<id>/meta.json from NOTES.md, confirm.txt and RESULTS.txt"""
import json
import os
import re

root = os.path.join(os.path.dirname(os.path.abspath(__file__)), "..", "seeded")
results = {}
try:
    for line in open(os.path.join(root, "RESULTS.txt")):
        m = re.match(r"(C\d+b?) vs (C\d+): exit=(\d+) (\d+) violation lines", line)
        if m:
            results[m.group(1)] = dict(check=m.group(2), exit=int(m.group(3)), violation_lines=int(m.group(4)))
except OSError:
    pass
for d in sorted(os.listdir(root)):
    p = os.path.join(root, d)
    if not os.path.isdir(p) or not re.fullmatch(r"C\d+b?", d):
        continue
    notes = open(os.path.join(p, "NOTES.md")).read() if os.path.exists(os.path.join(p, "NOTES.md")) else ""
    confirm = open(os.path.join(p, "confirm.txt")).read().strip() if os.path.exists(os.path.join(p, "confirm.txt")) else None
    meta = dict(property=d.rstrip("b"), round=2 if d.endswith("b") else 1,
                origin="written by an independent sub-agent that saw only the property text and its own scratch worktree of /repo (nothing from /verif)",
                files=sorted(f for f in os.listdir(p) if f not in ("meta.json",)),
                needs_to_manifest=notes[:1500],
                confirmed_by_me=confirm, detected_by_own_check=results.get(d))
    json.dump(meta, open(os.path.join(p, "meta.json"), "w"), indent=1)
    print(d, "confirm" if confirm else "NO-CONFIRM", results.get(d))
