#!/bin/bash
# For every seeded/<id>: in a scratch worktree of /repo HEAD run the demo without the change (must pass), apply the change,
# run the full pinned test suite (must pass) and the demo again (must fail).  Results go to seeded/<id>/confirm.txt
# usage: tools/confirm_seeds.sh [seed ids...]   (default: all)
cd /verif
mkdir -p /tmp/seedrun
if [ $# -gt 0 ]; then dirs=$(for x in "$@"; do echo seeded/$x; done); else dirs=$(ls -d seeded/C*); fi
for d in $dirs; do
  id=$(basename $d); W=/tmp/seedrun/confirm.$id
  git -C /repo worktree add -q --detach $W HEAD || continue
  demo=$(ls $d/demo_*.py | head -1)
  cp $demo $W/
  ( cd $W
    PYTHONPATH=$W timeout 600 /venv/bin/python $(basename $demo) > /tmp/seedrun/$id.demo0 2>&1; r0=$?
    git apply /verif/$d/patch.diff; ra=$?
    PYTHONPATH=$W timeout 900 /venv/bin/python -m pytest -q -p no:cacheprovider tests > /tmp/seedrun/$id.pytest 2>&1; rt=$?
    PYTHONPATH=$W timeout 600 /venv/bin/python $(basename $demo) > /tmp/seedrun/$id.demo1 2>&1; r1=$?
    echo "$id: demo without change exit=$r0 ($(tail -1 /tmp/seedrun/$id.demo0 | cut -c1-80)); patch applies=$ra; pytest with change exit=$rt ($(tail -1 /tmp/seedrun/$id.pytest)); demo with change exit=$r1 ($(tail -1 /tmp/seedrun/$id.demo1 | cut -c1-80))" | tee /verif/$d/confirm.txt
  )
  git -C /repo worktree remove --force $W
done
