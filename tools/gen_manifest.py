#!/usr/bin/env python3
"""Regenerates /verif/MANIFEST.json from the table below (kept here so the manifest stays consistent)."""
import json, os
HERE = os.path.dirname(os.path.dirname(os.path.abspath(__file__)))
PYTEST = "cd /repo && /venv/bin/python -m pytest -ra -q -p no:cacheprovider --timeout=900 --continue-on-collection-errors"
TECH = "solver-based bounded checking: symbolic execution of the real Python functions (own z3-backed executor, AST-instrumented import of /repo) + z3 queries; counterexamples replayed on the un-instrumented code"
NOTE = ("Trusted base: the symx engine in /verif/vf (proxies, container models, sre interpreter; self-validated against CPython on every run and by concolic replay of explored paths), z3 5.1, "
        "md5 abstracted as an uninterpreted function, CPython/stdlib semantics outside the instrumented modules. Bounds are printed in the evidence file.")
CLAIMED = {
 "C01": ("3/C01", "All 2^32 / 2^128 address pairs and all hash functions: the real anonymize() is summarised path by path and the prefix-preservation assertion is discharged by z3 per configuration of a stated family; plus joint runs on one shared instance. Bounded in the configuration family only."),
}
NA = {}
ALL = ["C%02d" % i for i in range(1, 20)]
def main():
    checks = []
    for pid in ALL:
        if pid in CLAIMED:
            ref, text = CLAIMED[pid]
            checks.append(dict(property_id=pid, quick_cmd="./check %s quick" % pid, thorough_cmd="./check %s thorough" % pid,
                               evidence_file="evidence/%s.json" % pid, replay_cmd_template="./check %s --replay {path}" % pid,
                               engine="symx", level_claimed=dict(category="model_checking", text=text, design_ref="DESIGN.md section " + ref),
                               level_note=NOTE, technique=TECH))
    na = [dict(property_id=p, reason=NA.get(p, "check not built yet in this round; see DESIGN.md section 7 (build order)")) for p in ALL if p not in CLAIMED]
    m = dict(version=1, setup_cmd="./setup.sh",
             hooks=dict(guard="NETCONAN_VERIF", enable="no hooks are needed: /verif's import hook instruments /repo's source text in memory on every run (guard variable unused)",
                        baseline_off_cmd=PYTEST, source_commits=[], add_only=True),
             engines=[dict(name="symx", path="vf/", serves_properties=sorted(CLAIMED), kind_free_text="symbolic executor for Python (z3 proxies, AST-instrumenting import hook, symbolic sre interpreter) + rx2z3 regex-to-z3 translator")],
             checks=checks, not_applicable=na,
             notes="Exit codes: 0 holds within bounds, 1 VIOLATION (replayed on un-instrumented code), 2 inconclusive (engine error / solver unknown / time-out).")
    json.dump(m, open(os.path.join(HERE, "MANIFEST.json"), "w"), indent=1)
main()
