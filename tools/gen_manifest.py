#!/usr/bin/env python3
"""Regenerates /verif/MANIFEST.json from the table below (kept here so the manifest stays consistent)."""
import json, os
HERE = os.path.dirname(os.path.dirname(os.path.abspath(__file__)))
PYTEST = "cd /repo && /venv/bin/python -m pytest -ra -q -p no:cacheprovider --timeout=900 --continue-on-collection-errors"
TECH = "solver-based bounded checking: symbolic execution of the real Python functions (own z3-backed executor, AST-instrumented import of /repo) + z3 queries; counterexamples replayed on the un-instrumented code"
NOTE = ("Trusted base: the symx engine in /verif/vf (proxies, container models, sre interpreter; self-validated against CPython on every run and by concolic replay of explored paths), z3 5.1, "
        "md5 abstracted as an uninterpreted function, CPython/stdlib semantics outside the instrumented modules. Bounds are printed in the evidence file.")
CLAIMED = {
 "C01": ("3/C01", "All 2^32 / 2^128 address pairs and all hash functions: the real anonymize() is summarised path by path and the prefix-preservation assertion is discharged by z3 per configuration of a stated family; joint runs of two arbitrary requests on one shared instance (exhaustive common-prefix split), also on a memo of arbitrary size. Bounded in the configuration family only."),
 "C02": ("3/C02", "All addresses and all hash functions: real anonymize/deanonymize composed on fresh instances (both orders), on an instance warmed by an arbitrary earlier request, and through the real _anonymize_match forward+undo; assertions discharged by z3 on every explored path. Bounded in the configuration family and warm-up depth."),
 "C03": ("3/C03", "Every answer of a history-laden real instance is compared in-path with a fresh instance's answer: 2 arbitrary requests (all directions, all addresses via an exhaustive common-prefix split), deep histories inside a symbolic bit window, and a memo of arbitrary reported size; all hash functions. Bounded in history depth and configurations."),
 "C04": ("3/C04", "Summary of the real anonymize() per configuration; membership in every configured prefix, host-bit preservation and independence discharged by z3 for all addresses and hash functions. Bounded in the configuration family."),
 "C05": ("3/C05", "Real _is_mask vs an independent 66-constant specification on all 2^32 values; kept-verbatim / replaced-by-image through the real _anonymize_match and no-collision for preserved networks, for all addresses and hash functions. Bounded in the configuration family."),
 "C06": ("3/C06", "Unbounded-length language equivalence (z3 regular expressions translated from the live pattern objects) of the IPv4 body and the hex-only IPv6 alternatives with reference grammars, plus token-exactness premises; bounded priority-exact symbolic runs of the real anonymize_ip_addr on token shapes with symbolic digits and contexts against an independent scanner."),
 "C07": ("3/C07", "Relational check on the real replace_matching_item / _anonymize_value: per explored path the output may not mention secret symbols, and two secrets of the same independent format cell may not lead to different outputs (z3 query per pair of result groups); line forms generated from the live pattern list. Bounded in secret length and form family."),
 "C08": ("3/C08", "Histories of the shared lookup with enumerated equality patterns among symbolic secrets (values, lines, two secrets on one line, $9$ encodings of one plaintext): equal secrets <=> equal replacements, decided per path. Bounded in history length and secret length."),
 "C09": ("3/C09", "Per explored path of the real _anonymize_value the (path-constant) replacement is judged by independent decoders and a z3 query shows every input of the path has one of the replacement's formats; enclosing text and line context checked on generated line forms. Bounded in secret length and forms."),
 "C10": ("3/C10", "Real SensitiveWordAnonymizer on all short Latin-1 lines and word+context shapes, every iteration order of the word set, pseudonyms as uninterpreted hash digits: a z3 query per path shows no listed word occurs in the output outside reserved tokens; reserved tokens / secrets kept. Bounded in line length and word lists."),
 "C11": ("3/C11", "Real _generate_as_number_replacement on all decimal strings up to 10 digits with the digest a free 128-bit value (block membership, rejection above 2^32-1, stability); real anonymize_as_numbers with its generated pattern on symbolic lines against an independent digit-run scanner. Bounded in line length and number lists."),
 "C12": ("3/C12", "Real FileAnonymizer.anonymize_io under all 16 feature subsets with symbolic whitespace: one write per line, leading/trailing whitespace and terminator equal (z3 query), locality (line alone vs after another), benign vocabulary lines verbatim up to permitted collapsing. Bounded in line count and vocabulary."),
 "C13": ("3/C13", "Self-composition: the same construction+run executed twice inside one symbolic execution with independent environment symbols (set iteration orders, random, string hash seed, passlib salt), earlier anonymizers with symbolic reserved words, the no-salt contract; equality of outputs decided by z3. Bounded in the input families."),
 "C14": ("3/C14", "Exceptions are observations: every feasible path of the real stages on wild slots of all generated line forms, malformed hash shapes, enclosing runs, near-address tokens and arbitrary short lines must return; the replacement-template semantics of re.sub and passlib's argument checks are part of the executed code. Bounded in slot lengths and shapes."),
 "C15": ("3/C15", "Differential: real FileAnonymizer with every feature subset (and undo) vs the chain of single-feature FileAnonymizers in the fixed order, same salt/options (distinct v4/v6 host bits), symbolic secret, concrete addresses/words/AS numbers under the real md5; output equality decided by z3; two streams on one object. Bounded in inputs and option sets."),
 "C17": ("3/C17", "Real dump_to_file after two arbitrary requests (exhaustive common-prefix split), both caching paths, seeded full-length entries: completeness, agreement with a fresh instance and uniqueness discharged per path. Bounded in request count and configurations."),
 "C18": ("3/C18", "Real $9$ codec: per-position step lemma over all previous/plaintext characters (covers every length), whole-function round trips for all plaintexts up to a length bound and every Latin-1 salt character, and decrypt on all short strings (only ValueError, only well-formed input accepted)."),
 "C19": ("3/C19", "Real main() below _parse_args executed over the full product of option presence/values derived from the live parser (validation before anything is written, nothing-enabled, documented parameter mapping, private-address equivalence), parser defaults, and host_bits on all 1-3 digit strings via z3. Config-file precedence is outside (configargparse internals)."),
}
NA = {"C16": "the quantifier ranges over directory trees and fault positions of the operating-system layer (os.walk, open, makedirs, decoding): none of that is code that can be executed symbolically; modelling the file system would verify the model and degenerate to enumerating concrete trees. The reachable part (all entry points funnel into anonymize_io; one anonymizer shared by all files) is covered under C15 / C03 and not claimed as C16."}
ALL = ["C%02d" % i for i in range(1, 20)]
def main():
    checks = []
    for pid in ALL:
        if pid in CLAIMED:
            ref, text = CLAIMED[pid]
            checks.append(dict(property_id=pid, quick_cmd="./check %s quick" % pid, thorough_cmd="./check %s thorough" % pid,
                               evidence_file="evidence/%s.json" % pid, replay_cmd_template="./check %s --replay {path}" % pid,
                               engine="symx", level_claimed=dict(category="model_checking", text=text, design_ref="DESIGN.md section " + ref),
                               level_note=NOTE, technique=TECH))
    na = [dict(property_id=p, reason=NA.get(p, "check not built yet in this round; see DESIGN.md section 7 (build order)")) for p in ALL if p not in CLAIMED]
    m = dict(version=1, setup_cmd="./setup.sh",
             hooks=dict(guard="NETCONAN_VERIF", enable="no hooks are needed: /verif's import hook instruments /repo's source text in memory on every run (guard variable unused)",
                        baseline_off_cmd=PYTEST, source_commits=[], add_only=True),
             engines=[dict(name="symx", path="vf/", serves_properties=sorted(CLAIMED), kind_free_text="symbolic executor for Python (z3 proxies, AST-instrumenting import hook, symbolic sre interpreter) + rx2z3 regex-to-z3 translator")],
             checks=checks, not_applicable=na,
             notes="Exit codes: 0 holds within bounds, 1 VIOLATION (replayed on un-instrumented code), 2 inconclusive (engine error / solver unknown / time-out).")
    json.dump(m, open(os.path.join(HERE, "MANIFEST.json"), "w"), indent=1)
main()
