#!/usr/bin/env python3
"""Regenerates /verif/MANIFEST.json from the table below (kept here so the manifest stays consistent)."""
import json, os
HERE = os.path.dirname(os.path.dirname(os.path.abspath(__file__)))
PYTEST = "cd /repo && /venv/bin/python -m pytest -ra -q -p no:cacheprovider --timeout=900 --continue-on-collection-errors"
TECH = "solver-based bounded checking: symbolic execution of the real Python functions (own z3-backed executor, AST-instrumented import of /repo) + z3 queries; counterexamples replayed on the un-instrumented code"
NOTE = ("Trusted base: the symx engine in /verif/vf (proxies, container models, sre interpreter; self-validated against CPython on every run and by concolic replay of explored paths), z3 5.1, "
        "md5 abstracted as an uninterpreted function, CPython/stdlib semantics outside the instrumented modules. Bounds are printed in the evidence file.")
CLAIMED = {
 "C02": ("3/C02", "All addresses and all hash functions: real anonymize/deanonymize composed on fresh instances (both orders), on an instance warmed by an arbitrary earlier request, and through the real _anonymize_match forward+undo; assertions discharged by z3 on every explored path. Bounded in the configuration family and warm-up depth."),
 "C03": ("3/C03", "Every answer of a history-laden real instance is compared in-path with a fresh instance's answer: 2 arbitrary requests (all directions, all addresses via an exhaustive common-prefix split) and deep histories inside a symbolic bit window; all hash functions. Bounded in history depth and configurations."),
 "C04": ("3/C04", "Summary of the real anonymize() per configuration; membership in every configured prefix, host-bit preservation and independence discharged by z3 for all addresses and hash functions. Bounded in the configuration family."),
 "C05": ("3/C05", "Real _is_mask vs an independent 66-constant specification on all 2^32 values; kept-verbatim / replaced-by-image through the real _anonymize_match and no-collision for preserved networks, for all addresses and hash functions. Bounded in the configuration family."),
 "C11": ("3/C11", "Real _generate_as_number_replacement on all decimal strings up to 10 digits with the digest a free 128-bit value (block membership, rejection above 2^32-1, stability); real anonymize_as_numbers with its generated pattern on symbolic lines against an independent digit-run scanner. Bounded in line length and number lists."),
 "C17": ("3/C17", "Real dump_to_file after two arbitrary requests (exhaustive common-prefix split), both caching paths, seeded full-length entries: completeness, agreement with a fresh instance and uniqueness discharged per path. Bounded in request count and configurations."),
 "C18": ("3/C18", "Real $9$ codec: per-position step lemma over all previous/plaintext characters (covers every length), whole-function round trips for all plaintexts up to a length bound and every Latin-1 salt character, and decrypt on all short strings (only ValueError, only well-formed input accepted)."),
 "C01": ("3/C01", "All 2^32 / 2^128 address pairs and all hash functions: the real anonymize() is summarised path by path and the prefix-preservation assertion is discharged by z3 per configuration of a stated family; plus joint runs on one shared instance. Bounded in the configuration family only."),
}
NA = {}
ALL = ["C%02d" % i for i in range(1, 20)]
def main():
    checks = []
    for pid in ALL:
        if pid in CLAIMED:
            ref, text = CLAIMED[pid]
            checks.append(dict(property_id=pid, quick_cmd="./check %s quick" % pid, thorough_cmd="./check %s thorough" % pid,
                               evidence_file="evidence/%s.json" % pid, replay_cmd_template="./check %s --replay {path}" % pid,
                               engine="symx", level_claimed=dict(category="model_checking", text=text, design_ref="DESIGN.md section " + ref),
                               level_note=NOTE, technique=TECH))
    na = [dict(property_id=p, reason=NA.get(p, "check not built yet in this round; see DESIGN.md section 7 (build order)")) for p in ALL if p not in CLAIMED]
    m = dict(version=1, setup_cmd="./setup.sh",
             hooks=dict(guard="NETCONAN_VERIF", enable="no hooks are needed: /verif's import hook instruments /repo's source text in memory on every run (guard variable unused)",
                        baseline_off_cmd=PYTEST, source_commits=[], add_only=True),
             engines=[dict(name="symx", path="vf/", serves_properties=sorted(CLAIMED), kind_free_text="symbolic executor for Python (z3 proxies, AST-instrumenting import hook, symbolic sre interpreter) + rx2z3 regex-to-z3 translator")],
             checks=checks, not_applicable=na,
             notes="Exit codes: 0 holds within bounds, 1 VIOLATION (replayed on un-instrumented code), 2 inconclusive (engine error / solver unknown / time-out).")
    json.dump(m, open(os.path.join(HERE, "MANIFEST.json"), "w"), indent=1)
main()
