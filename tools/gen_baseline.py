#!/usr/bin/env python3
"""Snapshot of the recognised secret-bearing line forms of the pinned tree (specification data for C07/C09).

Run against a *clean* /repo:  .venv/bin/python tools/gen_baseline.py
Writes vf/data/baseline_forms.json: the compiled pattern list (texts + flags) and every generated line form (prefix,
secret-slot description, suffix).  The checks regenerate the forms from the live tree on every run; a baseline form
that the live pattern list no longer produces is explored on its own (it is a line the pinned tool recognises, so the
secret in it must still be replaced)."""
import json
import logging
import os
import subprocess
import sys

sys.path.insert(0, os.path.join(os.path.dirname(os.path.abspath(__file__)), ".."))
logging.disable(logging.CRITICAL)
from vf import harness, forms  # noqa: E402


def ranges(chars):
    xs = sorted(chars)
    out = []
    for x in xs:
        if out and out[-1][1] == x - 1:
            out[-1][1] = x
        else:
            out.append([x, x])
    return out


def main():
    P = harness.plain()
    fs, hv, st = forms.all_forms(P, harness.REPO)
    rx = [[c.pattern, c.flags] for grp in P.sir.generate_default_sensitive_item_regexes() for c, _ in grp]
    commit = subprocess.check_output(["git", "-C", harness.REPO, "rev-parse", "HEAD"], text=True).strip()
    dirty = subprocess.check_output(["git", "-C", harness.REPO, "status", "--porcelain", "--untracked-files=no"], text=True).strip()
    if dirty:
        sys.exit("refusing to snapshot a dirty tree")
    data = dict(repo_commit=commit, patterns=rx, forms=[])
    for f in fs:
        pre, slot, suf = f.parts()
        data["forms"].append(dict(pat=f.pat_index, group=f.group_index, pre=pre, suf=suf, chars=ranges(slot.chars), lo=slot.lo, hi=slot.hi))
    path = os.path.join(os.path.dirname(os.path.abspath(__file__)), "..", "vf", "data", "baseline_forms.json")
    with open(path, "w") as fh:
        json.dump(data, fh, indent=0, sort_keys=True)
    print("wrote %d forms, %d patterns from %s" % (len(data["forms"]), len(rx), commit))


if __name__ == "__main__":
    main()
