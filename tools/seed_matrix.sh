#!/bin/bash
# runs every seeded change against the quick check of its own property (scratch worktree, /repo untouched)
cd /verif
: > seeded/RESULTS.txt
for d in seeded/C*; do
  id=$(basename $d)
  tools/try_seed.sh $id ${id%b} 2>&1 | cut -c1-400 | head -4 >> seeded/RESULTS.txt
done
