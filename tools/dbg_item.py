#!/usr/bin/env python3
"""debug aid: run one work item in-process.  usage: VF_REPO=<tree> .venv/bin/python tools/dbg_item.py C15 compose '{"n":1,...}' [tier]"""
import importlib
import json
import logging
import os
import sys
import traceback

sys.path.insert(0, os.path.join(os.path.dirname(os.path.abspath(__file__)), ".."))
logging.disable(logging.CRITICAL)
from vf import harness, core  # noqa: E402

pid, hname, params = sys.argv[1], sys.argv[2], json.loads(sys.argv[3])
mod = importlib.import_module("vf.props.%s" % pid.lower())
it = harness.Item(pid, hname, params, budget_s=600, obligation="dbg")
res = harness.new_result(it)
try:
    mod.HARNESSES[hname](it, res)
except BaseException as e:
    traceback.print_exc()
print(json.dumps({k: v for k, v in res.items() if k in ("status", "notes", "vacuity", "paths", "unknown", "samples")}, default=str)[:1500])
for v in res["violations"][:5]:
    print("VIOL", json.dumps(v, default=str)[:700])
