#!/bin/bash
# usage: tools/try_seed.sh <seed dir name> <check ids...>
# Applies seeded/<name>/patch.diff to a scratch worktree of /repo (outside /repo and /verif), runs the quick checks against
# it through VF_REPO (evidence and replays redirected to scratch), then removes the worktree.  /repo itself is not touched.
set -u
name=$1; shift
W=/tmp/seedrun/$name.$$
mkdir -p /tmp/seedrun
git -C /repo worktree add -q --detach $W HEAD || exit 3
git -C $W apply /verif/seeded/$name/patch.diff || { echo "patch does not apply"; git -C /repo worktree remove --force $W; exit 3; }
cd /verif
for c in "$@"; do
  out=$(VF_REPO=$W VF_EVIDENCE_DIR=$W/.evidence VF_REPLAY_DIR=$W/.replays timeout 3000 ./check $c ${TIER:-quick} 2>&1); rc=$?
  echo "$name vs $c: exit=$rc $(echo "$out" | grep -c '^VIOLATION') violation lines; $(echo "$out" | tail -1)"
  echo "$out" | grep -A1 '^VIOLATION' | grep obligation | sed 's/witness=.*//' | sort | uniq -c | head -4
  echo "$out" | grep '^INCONCLUSIVE' | head -3 | cut -c1-300
done
git -C /repo worktree remove --force $W
