#!/bin/bash
# usage: tools/with_seed.sh <seed> <command...>   runs the command with VF_REPO pointing at a scratch worktree carrying the seeded change
name=$1; shift
W=/tmp/seedrun/dbg.$name.$$
mkdir -p /tmp/seedrun
git -C /repo worktree add -q --detach $W HEAD || exit 3
git -C $W apply /verif/seeded/$name/patch.diff || { git -C /repo worktree remove --force $W; exit 3; }
VF_REPO=$W VF_EVIDENCE_DIR=$W/.evidence VF_REPLAY_DIR=$W/.replays "$@"
git -C /repo worktree remove --force $W
